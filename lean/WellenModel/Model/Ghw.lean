import WellenModel.Model.Tree
import WellenModel.Model.Spec
import WellenModel.Model.Slice
import WellenModel.Model.Proto
/-
M10 `Ghw` — byte-level model of wellen/src/ghw: header + directory probe (hierarchy.rs 20-108), string /
type / well-known-type / hierarchy sections (111-410, 702-903), the VHDL type classification
(412-700), `add_var` (1102-1271), `GhwSignalTracker` (905-1099), snapshot / cycle sections and
`read_signal_value` (signals.rs 12-210) and the `VecBuffer` bit assembly (212-448).
Values go through the store model (`Store.lean`), slices through `Slice.lean`, the tree through the
pointer-level builder.  Release-build behaviour: `debug_assert!`s are not modelled.
Outcome: a dump, an error, or a panic.
-/
namespace Wellen.Ghw
open Wellen.Bits Wellen.Store Wellen.Tree Wellen.Proto

/-! ### byte reader -/

inductive R (α : Type)
  | ok (a : α) (rest : List Nat)
  | err
  | panic

def P (α : Type) := List Nat → R α

instance : Monad P where
  pure a := fun s => .ok a s
  bind m f := fun s => match m s with
    | .ok a r => f a r
    | .err => .err
    | .panic => .panic

def failE {α : Type} : P α := fun _ => .err
def failP {α : Type} : P α := fun _ => .panic
def u8 : P Nat := fun s => match s with | [] => .err | b :: r => .ok b r
def bytesN (n : Nat) : P (List Nat) := fun s => if s.length < n then .err else .ok (s.take n) (s.drop n)
def uleb : P Nat := fun s => match lebRead s with | none => .err | some (v, r) => .ok v r
def ofOpt {α : Type} : Option α → P α | some a => pure a | none => failE
def ofOptP {α : Type} : Option α → P α | some a => pure a | none => failP

def slebGo : List Nat → Nat → Nat → Option (Int × List Nat)
  | [], _, _ => none
  | b :: r, shift, acc =>
    let acc := acc + (b % 128) * 2 ^ shift
    if b ≥ 128 then slebGo r (shift + 7) acc
    else some ((if (b / 64) % 2 = 1 then (acc : Int) - 2 ^ (shift + 7) else acc), r)

def sleb : P Int := fun s => match slebGo s 0 0 with | none => .err | some (v, r) => .ok v r

def natOfBytes (be : Bool) (bs : List Nat) : Nat :=
  (if be then bs else bs.reverse).foldl (fun acc b => acc * 256 + b) 0

def i32Of (be : Bool) (bs : List Nat) : Int :=
  let n := natOfBytes be bs
  if n ≥ 2 ^ 31 then (n : Int) - 2 ^ 32 else n

def i64Of (be : Bool) (bs : List Nat) : Int :=
  let n := natOfBytes be bs
  if n ≥ 2 ^ 63 then (n : Int) - 2 ^ 64 else n

/-- `HeaderData::read_u32` on 4 bytes: negative ⇒ error -/
def u32Of (be : Bool) (bs : List Nat) : P Nat :=
  let v := i32Of be bs
  if v < 0 then failE else pure v.toNat

def asc (s : String) : List Nat := s.toList.map Char.toNat

def tag (s : String) : List Nat := asc s ++ [0]

def zerosOk (h : List Nat) : P Unit := if h.take 4 = [0, 0, 0, 0] then pure () else failE

/-- `read_ghw_header`: returns big_endian -/
def readGhwHeader : P Bool := do
  let c ← bytesN 2
  if c ≠ asc "GH" then failE else
  let m ← bytesN 7
  if m ≠ asc "DLwave\n" then failE else
  let h ← bytesN 7
  if h.getD 0 0 ≠ 16 ∨ h.getD 1 0 ≠ 0 ∨ h.getD 2 0 > 1 ∨ (h.getD 3 0 ≠ 1 ∧ h.getD 3 0 ≠ 2) ∨ h.getD 6 0 ≠ 0 then failE
  else pure (h.getD 3 0 == 2)

/-- `read_directory` after the `DIR\0` tag -/
def readDirectory (be : Bool) : P Unit := do
  let h ← bytesN 8
  let n ← u32Of be (h.drop 4)
  let rec entries : Nat → P Unit
    | 0 => pure ()
    | k + 1 => do
      let e ← bytesN 8
      let _ ← u32Of be (e.drop 4)      -- the position is read as a non-negative number
      entries k
  entries n
  let e ← bytesN 4
  if e = tag "EOD" then pure () else failE

/-- `try_read_directory` on the whole file: `false` = error -/
def directoryOk (be : Bool) (all : List Nat) : Bool :=
  let tailer := all.drop (all.length - 12)
  if tailer.take 4 ≠ tag "TAI" then true else
  match u32Of be (tailer.drop 8) [] with
  | .ok off _ =>
    match (do let m ← bytesN 4; if m = tag "DIR" then readDirectory be else failE : P Unit) (all.drop off) with
    | .ok _ _ => true
    | _ => false
  | _ => false

/-! ### types -/

inductive Dir | to | downto
deriving Repr, DecidableEq, Inhabited

structure IntRange where
  dir : Dir
  left : Int
  right : Int
deriving Repr, DecidableEq, Inhabited

/-- `IntRange::range()` as (start, end exclusive) -/
def IntRange.range (r : IntRange) : Int × Int :=
  match r.dir with
  | .to => (r.left, r.right + 1)
  | .downto => (r.right, r.left + 1)

def IntRange.len (r : IntRange) : Int :=
  match r.dir with
  | .to => r.right - r.left + 1
  | .downto => r.left - r.right + 1

/-- the element labels `add_var` visits: `0..len()` offsets from the left bound, in the declared direction (fix F23) -/
def IntRange.elems (r : IntRange) : List Int :=
  (List.range r.len.toNat).map fun (k : Nat) => match r.dir with
    | .to => r.left + (k : Int)
    | .downto => r.left - (k : Int)

inductive VType
  | nineBit (name : Nat)
  | nineVec (name : Nat) (r : IntRange)
  | bit (name : Nat)
  | bitVec (name : Nat) (r : IntRange)
  | alias (name : Nat) (base : Nat)
  | i32 (name : Nat) (r : Option IntRange)
  | i64 (name : Nat) (r : Option IntRange)
  | f64 (name : Nat)
  | record (name : Nat) (fields : List (Nat × Nat))
  | enum (name : Nat) (lits : List Nat) (enumId : Nat)
  | array (name : Nat) (elem : Nat) (r : Option IntRange)
deriving Repr, Inhabited

def VType.name : VType → Nat
  | .nineBit n | .nineVec n _ | .bit n | .bitVec n _ | .alias n _ | .i32 n _ | .i64 n _ | .f64 n
  | .record n _ | .enum n _ _ | .array n _ _ => n

def VType.intRange : VType → Option IntRange
  | .nineBit _ => some ⟨.to, 0, 8⟩
  | .i32 _ r => r
  | .i64 _ r => r
  | .enum _ lits _ => some ⟨.to, 0, lits.length⟩
  | _ => none

/-- type ids are 1-based; 0 panics (`NonZeroU32::new(..).unwrap()`) at read time -/
def typeAt (types : Array VType) (id : Nat) : Option VType := if id = 0 then none else types[id - 1]?

/-- `lookup_concrete_type` / `_id`: one layer of aliases; `none` = index panic -/
def concreteId (types : Array VType) (id : Nat) : Option Nat :=
  match typeAt types id with
  | none => none
  | some (.alias _ base) => (typeAt types base).map fun _ => base
  | some _ => some id

def concrete (types : Array VType) (id : Nat) : Option VType :=
  (concreteId types id).bind (typeAt types)

def pickBest (a b : Nat) : Nat := if a = 0 then b else a

def lower (c : Nat) : Nat := if 65 ≤ c ∧ c ≤ 90 then c + 32 else c

/-- `check_literals_match`; `none` = string index panic -/
def literalsMatch (strings : Array (List Nat)) (lits : List Nat) (expected : List Nat) : Option Bool :=
  if lits.length ≠ expected.length then some false else
  let rec go : List Nat → List Nat → Option Bool
    | l :: ls, e :: es =>
      match strings[l]? with
      | none => none
      | some s =>
        let cc := if s.length = 1 then some (s.getD 0 0) else if s.length = 3 then some (s.getD 1 0) else none
        match cc with
        | none => some false
        | some c => if lower c = lower e then go ls es else some false
    | _, _ => some true
  go lits expected

structure TySt where
  types : Array VType := #[]
  enumCount : Nat := 0

def fromEnum (strings : Array (List Nat)) (st : TySt) (name : Nat) (lits : List Nat) : Option (VType × TySt) :=
  match literalsMatch strings lits (asc "ux01zwlh-") with
  | none => none
  | some true => some (.nineBit name, st)
  | some false =>
    match literalsMatch strings lits (asc "01") with
    | none => none
    | some true => some (.bit name, st)
    | some false => some (.enum name lits st.enumCount, { st with enumCount := st.enumCount + 1 })

def fromArray (types : Array VType) (name elem index : Nat) : Option VType :=
  match concreteId types elem, concrete types index with
  | some el, some it =>
    match typeAt types el, it.intRange with
    | some (.nineBit _), some r => some (.nineVec name r)
    | some (.bit _), some r => some (.bitVec name r)
    | some _, r => some (.array name elem r)      -- the declared element type (fix F26), not the resolved one
    | none, _ => none
  | _, _ => none

inductive Rng | int (r : IntRange) | float
deriving Inhabited

def fromSubtypeArray (types : Array VType) (name base : Nat) (r : Rng) : Option VType :=
  match concrete types base, r with
  | some (.array bn el _), .int ir => some (.array (pickBest name bn) el (some ir))
  | some (.nineVec bn _), .int ir => some (.nineVec (pickBest name bn) ir)
  | some (.bitVec bn _), .int ir => some (.bitVec (pickBest name bn) ir)
  | _, _ => none

def fromSubtypeScalar (types : Array VType) (name base : Nat) (r : Rng) : Option VType :=
  match concrete types base, r with
  | some (.enum _ lits _), .int ir =>
    if ir.range.1 = 0 ∧ ir.range.2 = lits.length then some (.alias name base) else none
  | some (.nineBit _), .int ir =>
    if ir.range.1 = 0 ∧ ir.range.2 = 9 then some (.alias name base) else none
  | some (.i32 _ _), .int ir => some (.i32 name (some ir))
  | some (.f64 _), .float => some (.f64 name)
  | _, _ => none

def rtikValid (k : Nat) : Bool :=
  k = 0 || (15 ≤ k && k ≤ 23) || (25 ≤ k && k ≤ 29) || k = 31 || k = 32 || k = 34 || k = 35 || k = 37 || k = 38 || k = 39

/-- `read_range` -/
def readRange : P Rng := do
  let t ← u8
  let kind := t % 128
  if !rtikValid kind then failE else
  let dir := if t ≥ 128 then Dir.downto else Dir.to
  if kind = 23 ∨ kind = 22 then do
    let b ← bytesN 2
    pure (.int ⟨dir, b.getD 0 0, b.getD 1 0⟩)
  else if kind = 25 ∨ kind = 28 ∨ kind = 26 ∨ kind = 29 then do
    let l ← sleb
    let r ← sleb
    pure (.int ⟨dir, l, r⟩)
  else if kind = 27 then do
    let _ ← bytesN 16
    pure .float
  else failE

def readTypeId : P Nat := do
  let v ← uleb
  if v % 2 ^ 32 = 0 then failP else pure (v % 2 ^ 32)

def readIds : Nat → P (List Nat)
  | 0 => pure []
  | n + 1 => do
    let a ← uleb
    let r ← readIds n
    pure (a :: r)

def readFields : Nat → P (List (Nat × Nat))
  | 0 => pure []
  | n + 1 => do
    let a ← uleb
    let b ← readTypeId
    let r ← readFields n
    pure ((a, b) :: r)

def readTypeIds : Nat → P (List Nat)
  | 0 => pure []
  | n + 1 => do
    let a ← readTypeId
    let r ← readTypeIds n
    pure (a :: r)

/-- one entry of the type table -/
def readType (strings : Array (List Nat)) (st : TySt) : P TySt := do
  let t ← u8
  if !rtikValid t then failE else
  let name ← uleb
  let push (v : VType) (st : TySt) : P TySt := pure { st with types := st.types.push v }
  if t = 23 ∨ t = 22 then do
    let n ← uleb
    let lits ← readIds n
    match fromEnum strings st name lits with
    | none => failP
    | some (v, st') => push v st'
  else if t = 25 then push (.i32 name none) st
  else if t = 26 then push (.i64 name none) st
  else if t = 27 then push (.f64 name) st
  else if t = 34 then do
    let base ← readTypeId
    let r ← readRange
    match fromSubtypeScalar st.types name base r with
    | none => failP
    | some v => push v st
  else if t = 31 then do
    let el ← readTypeId
    let nd ← uleb
    let dims ← readTypeIds nd
    match dims with
    | [d] =>
      match fromArray st.types name el d with
      | none => failP
      | some v => push v st
    | _ => failP          -- `dims[0]` on an empty list / todo!() for several dimensions
  else if t = 35 then do
    let base ← readTypeId
    let r ← readRange
    match fromSubtypeArray st.types name base r with
    | none => failP
    | some v => push v st
  else if t = 32 then do
    let n ← uleb
    let fs ← readFields n
    push (.record name fs) st
  else failP

def readTypes (strings : Array (List Nat)) : Nat → TySt → P TySt
  | 0, st => pure st
  | n + 1, st => do
    let st' ← readType strings st
    readTypes strings n st'

def readTypeSection (be : Bool) (strings : Array (List Nat)) : P TySt := do
  let h ← bytesN 8
  zerosOk h
  let n ← u32Of be (h.drop 4)
  let st ← readTypes strings n {}
  let z ← u8
  if z ≠ 0 then failE else pure st

/-! ### strings -/

def strChars : List Nat → List Nat → Option (List Nat × Nat × List Nat)
  | [], _ => none
  | c :: r, bufRev => if c ≤ 31 ∨ (128 ≤ c ∧ c ≤ 159) then some (bufRev, c, r) else strChars r (c :: bufRev)

def prefixLen : List Nat → Nat → Nat → Nat → Option (Nat × List Nat)
  | s, c, len, shift =>
    if c < 128 then some (len, s) else
    match s with
    | [] => none
    | c' :: r => prefixLen r c' (len ||| ((c' &&& 31) <<< shift)) (shift + 5)
termination_by s => s.length

def readStrs : Nat → List Nat → Array (List Nat) → P (Array (List Nat))
  | 0, _, tbl => pure tbl
  | n + 1, buf, tbl => fun s =>
    match strChars s buf.reverse with
    | none => .err
    | some (bufRev, c, r) =>
      let value := bufRev.reverse
      match prefixLen r c (c &&& 31) 5 with
      | none => .err
      | some (pl, r') => readStrs n (value.take pl) (tbl.push value) r'

def readStringSection (be : Bool) : P (Array (List Nat)) := do
  let h ← bytesN 12
  zerosOk h
  let n ← u32Of be ((h.drop 4).take 4)
  readStrs (n + 1) [] #[asc "<anon>"]

/-! ### signal tracker -/

inductive SigTpe | nineState | nineStateVec | twoState | twoStateVec | u8 | leb | f64
deriving Repr, DecidableEq, Inhabited

structure SigInfo where
  tpe : SigTpe
  ref : Nat
  vec : Option Nat
deriving Repr, Inhabited

structure VecInfo where
  min : Nat          -- 0-based index of the first signal id
  max : Nat
  two : Bool
  ref : Nat
  aliasId : Option Nat := none     -- 1-based
deriving Repr, Inhabited

structure Alias where
  msb : Nat
  lsb : Nat
  ref : Nat
  sliced : Nat
  next : Option Nat := none
deriving Repr, Inhabited

structure Tracker where
  signals : Array (Option SigInfo)
  refCount : Nat := 0
  vectors : Array VecInfo := #[]
  aliases : Array Alias := #[]
deriving Inhabited

def registerScalar (t : Tracker) (idx : Nat) (tpe : SigTpe) : Option (Tracker × Nat) :=
  match t.signals[idx]? with
  | none => none
  | some (some prev) => some (t, prev.ref)
  | some none =>
    some ({ t with signals := t.signals.set! idx (some ⟨tpe, t.refCount, none⟩), refCount := t.refCount + 1 }, t.refCount)

/-- `find_vec` (release build: early return); `none` = index panic -/
def findVec (t : Tracker) (min : Nat) : Nat → Option (Option Nat)
  | 0 => some none
  | n + 1 =>
    match t.signals[min]? with
    | none => none
    | some (some info) => if info.vec.isSome then some info.vec else findVec t (min + 1) n
    | some none => findVec t (min + 1) n

def findOrAddAlias (t : Tracker) (vecId msb lsb : Nat) : Option (Tracker × Nat) :=
  match t.vectors[vecId]? with
  | none => none
  | some v =>
    let fresh : Alias := { msb := msb, lsb := lsb, ref := t.refCount, sliced := v.ref }
    match v.aliasId with
    | none =>
      some ({ t with refCount := t.refCount + 1, aliases := t.aliases.push fresh,
                     vectors := t.vectors.set! vecId { v with aliasId := some (t.aliases.size + 1) } }, t.refCount)
    | some a0 =>
      let rec go (fuel : Nat) (aid : Nat) : Option (Tracker × Nat) :=
        match fuel with
        | 0 => none
        | f + 1 =>
          match t.aliases[aid - 1]? with
          | none => none
          | some a =>
            if a.msb = msb ∧ a.lsb = lsb then some (t, a.ref) else
            match a.next with
            | some nx => go f nx
            | none =>
              some ({ t with refCount := t.refCount + 1,
                             aliases := (t.aliases.push fresh).set! (aid - 1) { a with next := some (t.aliases.size + 1) } }, t.refCount)
      go (t.aliases.size + 1) a0

/-- `register_bit_vec(min, max, is_binary)` on 0-based indices -/
def registerBitVec (t : Tracker) (min max : Nat) (two : Bool) : Option (Tracker × Nat) :=
  match findVec t min (max + 1 - min) with
  | none => none
  | some (some vid) =>
    match t.vectors[vid]? with
    | none => none
    | some v =>
      if max = v.max ∧ min = v.min then
        match t.signals[min]? with
        | some (some s) => some (t, s.ref)
        | _ => none
      else if v.min ≤ min ∧ v.max ≥ max then findOrAddAlias t vid (v.max - min) (v.max - max)
      else none
  | some none =>
    if min = max then registerScalar t min (if two then .twoState else .nineState)
    else
      if (List.range (max + 1 - min)).any (fun k => match t.signals[min + k]? with | some none => false | _ => true) then none else
      let vecId := t.vectors.size
      let ref := t.refCount
      let tpe := if two then SigTpe.twoStateVec else SigTpe.nineStateVec
      let sigs := (List.range (max + 1 - min)).foldl (fun (a : Array (Option SigInfo)) k => a.set! (min + k) (some ⟨tpe, ref, some vecId⟩)) t.signals
      some ({ t with signals := sigs, refCount := ref + 1, vectors := t.vectors.push { min := min, max := max, two := two, ref := ref } }, ref)

/-! ### hierarchy section -/

structure HSt where
  ops : List LOp := []          -- reversed
  tr : Tracker
  /-- per signal ref: the encoding of the last variable declared for it -/
  enc : List (Nat × SigType) := []

def hierKindValid (k : Nat) : Bool :=
  k = 0 || k = 1 || (3 ≤ k && k ≤ 7) || k = 13 || k = 14 || (15 ≤ k && k ≤ 21)

def scopeKindName (k : Nat) : String :=
  match k with
  | 3 => "VhdlBlock" | 4 => "VhdlIfGenerate" | 5 => "VhdlForGenerate" | 6 => "VhdlArchitecture"
  | 7 => "VhdlPackage" | 14 => "GhwGeneric" | _ => "VhdlProcess"

def dirName (k : Nat) : String :=
  match k with
  | 16 => "Implicit" | 17 => "Input" | 18 => "Output" | 19 => "InOut" | 20 => "Buffer" | _ => "Linkage"

def strOf (bs : List Nat) : String := String.ofList (bs.map Char.ofNat)
def hexOr (bs : List Nat) : String := if bs.isEmpty then "-" else toHex bs

/-- `get_enum_bits` -/
def enumBits (n : Nat) : Nat := if n = 0 then 64 else if n = 1 then 0 else Nat.log2 (n - 1) + 1

def binStr (width v : Nat) : String :=
  let ds := (Nat.toDigits 2 v)
  String.ofList (List.replicate (width - ds.length) '0' ++ ds)

structure Tables where
  strings : Array (List Nat)
  types : Array VType
  /-- per enum id: rendered `name[code:literal;…]` -/
  enums : Array String

/-- `get_type_and_name` -/
def typeAndName (tb : Tables) (id : Nat) : Option (VType × List Nat) :=
  match typeAt tb.types id, concrete tb.types id with
  | some top, some tpe =>
    (tb.strings[pickBest top.name tpe.name]?).map fun s => (tpe, s)
  | _, _ => none

def readSignalId (maxId : Nat) : P Nat := do
  let idx ← uleb
  if idx > maxId then failE
  else if idx % 2 ^ 32 = 0 then failP
  else pure (idx % 2 ^ 32)

def readSignalIds (maxId : Nat) : Nat → P (List Nat)
  | 0 => pure []
  | n + 1 => do
    let a ← readSignalId maxId
    let r ← readSignalIds maxId n
    pure (a :: r)

def idxStr (msb lsb : Int) : String := s!"{msb}:{lsb}"

/-- `VarIndex::new(left, right)` followed by `msb()`/`lsb()` (i32 width, see C09) -/
def varIndexStr (left right : Int) : String :=
  let w := ((left - right + 2 ^ 31) % 2 ^ 32) - 2 ^ 31
  let w := if w = 0 then -(2 ^ 31 : Int) else w
  idxStr (if w = -(2 ^ 31 : Int) then right else w + right) right

def varOp (name : List Nat) (vt dir enc idx : String) (ref : Nat) (tname : List Nat) (en : String) : LOp :=
  { op := .var (strOf name) 0, label := s!"{vt},{hexOr name},{dir},{enc},{idx}", sig := ref, tail := s!"{hexOr tname},{en}" }

def scopeOp (name : List Nat) (kind : String) : LOp :=
  { op := .scope (strOf name) false, label := s!"{kind},{hexOr name}" }

def popOp : LOp := { op := .pop }

def lowerStr (bs : List Nat) : String := strOf (bs.map lower)

def setEnc (h : HSt) (ref : Nat) (tp : SigType) : List (Nat × SigType) := (ref, tp) :: h.enc

/-- `add_var`; fuel bounds the nesting of records / arrays -/
def addVar (tb : Tables) (kind : Nat) (maxId : Nat) : Nat → List Nat → Nat → HSt → P HSt
  | 0, _, _, _ => failP
  | fuel + 1, name, typeId, h =>
    match typeAndName tb typeId with
    | none => failP
    | some (tpe, tname) =>
      let dir := dirName kind
      match tpe with
      | .enum _ lits eid => do
        let en ← ofOptP tb.enums[eid]?
        let idx ← readSignalId maxId
        let bits := enumBits lits.length
        let (tr, ref) ← ofOptP (registerScalar h.tr (idx - 1) .u8)
        let b := if bits = 0 then 1 else bits
        pure { h with tr := tr, enc := setEnc h ref (.bitvec b),
                      ops := varOp name "Enum" dir s!"B{b}" "-" ref tname en :: h.ops }
      | .nineBit _ | .bit _ => do
        let idx ← readSignalId maxId
        let two := match tpe with | .bit _ => true | _ => false
        let (tr, ref) ← ofOptP (registerBitVec h.tr (idx - 1) (idx - 1) two)
        let ln := lowerStr tname
        let vt := if ln = "std_ulogic" then "StdULogic" else if ln = "std_logic" then "StdLogic" else if ln = "bit" then "Bit" else "Wire"
        pure { h with tr := tr, enc := setEnc h ref (.bitvec 1),
                      ops := varOp name vt dir "B1" "-" ref tname "-" :: h.ops }
      | .i32 _ _ => do
        let idx ← readSignalId maxId
        let (tr, ref) ← ofOptP (registerScalar h.tr (idx - 1) .leb)
        pure { h with tr := tr, enc := setEnc h ref (.bitvec 32),
                      ops := varOp name "Integer" dir "B32" "-" ref tname "-" :: h.ops }
      | .f64 _ => do
        let idx ← readSignalId maxId
        let (tr, ref) ← ofOptP (registerScalar h.tr (idx - 1) .f64)
        pure { h with tr := tr, enc := setEnc h ref .real,
                      ops := varOp name "Real" dir "R" "-" ref tname "-" :: h.ops }
      | .nineVec _ r | .bitVec _ r => do
        let n := (r.len.natAbs) % 2 ^ 32
        if n = 0 then pure h else
        let ids ← readSignalIds maxId n
        let two := match tpe with | .bitVec _ _ => true | _ => false
        let mn := ids.headD 1
        let mx := ids.getLastD 1
        if mx < mn then failP else       -- `max - min` underflows / empty inclusive range: find_vec returns None, then …
        let (tr, ref) ← ofOptP (registerBitVec h.tr (mn - 1) (mx - 1) two)
        let ln := lowerStr tname
        let vt := if ln = "std_ulogic_vector" then "StdULogicVector" else if ln = "std_logic_vector" then "StdLogicVector"
                  else if ln = "bit_vector" then "BitVector" else "Wire"
        pure { h with tr := tr, enc := setEnc h ref (.bitvec n),
                      ops := varOp name vt dir s!"B{n}" (varIndexStr r.left r.right) ref tname "-" :: h.ops }
      | .record _ fields => do
        let h1 := { h with ops := scopeOp name "VhdlRecord" :: h.ops }
        let rec goF : List (Nat × Nat) → HSt → P HSt
          | [], h => pure h
          | (fname, ft) :: rest, h => do
            let fnm ← ofOptP tb.strings[fname]?
            let h' ← addVar tb kind maxId fuel fnm ft h
            goF rest h'
        let h2 ← goF fields h1
        pure { h2 with ops := popOp :: h2.ops }
      | .array _ el r => do
        let range : IntRange := r.getD ⟨.to, -(2 ^ 31 : Int), 2 ^ 31 - 1⟩
        let h1 := { h with ops := scopeOp name "VhdlArray" :: h.ops }
        let rec goA : List Int → HSt → P HSt
          | [], h => pure h
          | e :: rest, h => do
            let h' ← addVar tb kind maxId fuel (asc s!"[{e}]") el h
            goA rest h'
        let h2 ← goA range.elems h1
        pure { h2 with ops := popOp :: h2.ops }
      | _ => failP

/-- `dummy_read_signal_value` -/
def dummyRead (tb : Tables) : Nat → VType → P Unit
  | 0, _ => failP
  | fuel + 1, tpe =>
    match tpe with
    | .nineBit _ | .bit _ | .enum _ _ _ => do let _ ← u8; pure ()
    | .nineVec _ r | .bitVec _ r => do let _ ← bytesN (r.range.2 - r.range.1).toNat; pure ()
    | .i32 _ _ | .i64 _ _ => do let _ ← sleb; pure ()
    | .f64 _ => do let _ ← bytesN 8; pure ()
    | .record _ fields =>
      let rec goF : List (Nat × Nat) → P Unit
        | [] => pure ()
        | (_, ft) :: rest => do
          let (t, _) ← ofOptP (typeAndName tb ft)
          dummyRead tb fuel t
          goF rest
      goF fields
    | .array _ el r => do
      let (t, _) ← ofOptP (typeAndName tb el)
      match r with
      | none => pure ()
      | some rr =>
        let rec goA : Nat → P Unit
          | 0 => pure ()
          | k + 1 => do dummyRead tb fuel t; goA k
        goA (rr.range.2 - rr.range.1).toNat
    | .alias _ _ => failP

def hierLoop (tb : Tables) (maxId expected : Nat) : Nat → Nat → HSt → P HSt
  | 0, _, _ => failE
  | fuel + 1, declared, h => do
    let k ← u8
    if !hierKindValid k then failE else
    if k = 0 then pure h
    else if k = 15 then hierLoop tb maxId expected fuel declared { h with ops := popOp :: h.ops }
    else if k = 1 then failP
    else if k = 13 then do
      let _ ← uleb
      hierLoop tb maxId expected fuel declared h
    else if k ≤ 14 then do
      let name ← uleb
      if k = 5 then do
        let tid ← readTypeId
        let (t, _) ← ofOptP (typeAndName tb tid)
        dummyRead tb (tb.types.size + 2) t
      let nm ← ofOptP tb.strings[name]?
      hierLoop tb maxId expected fuel declared { h with ops := scopeOp nm (scopeKindName k) :: h.ops }
    else do
      let name ← uleb
      let nm ← ofOptP tb.strings[name]?
      let tid ← readTypeId
      let h' ← addVar tb k maxId (tb.types.size + 2) nm tid h
      if declared + 1 > expected then failE else
      hierLoop tb maxId expected fuel (declared + 1) h'

def readHierarchySection (be : Bool) (tb : Tables) : P HSt := fun s =>
  (do
    let hdr ← bytesN 16
    zerosOk hdr
    let _ ← u32Of be ((hdr.drop 4).take 4)
    let expected ← u32Of be ((hdr.drop 8).take 4)
    let maxId ← u32Of be ((hdr.drop 12).take 4)
    hierLoop tb maxId expected (s.length + 1) 0 { tr := { signals := (List.replicate maxId none).toArray } } : P HSt) s

/-- the enum tables `add_enums_to_wellen_hierarchy` registers -/
def enumTables (strings : Array (List Nat)) (types : Array VType) : Option (Array String) :=
  types.foldl (fun (acc : Option (Array String)) t =>
    match acc, t with
    | some a, .enum name lits _ =>
      let bits := enumBits lits.length
      match strings[name]?, lits.mapM (fun l => strings[l]?) with
      | some nm, some ls =>
        let items := (List.range ls.length).zip ls |>.map fun (i, l) => s!"{binStr bits i}:{hexOr l}"
        some (a.push (hexOr nm ++ "[" ++ ";".intercalate items ++ "]"))
      | _, _ => none
    | acc, _ => acc) (some #[])

structure HeaderOut where
  h : HSt
  tb : Tables

/-- `read_hierarchy`: sections up to `EOH` -/
def readSections (be : Bool) : Nat → Array (List Nat) → TySt → Array String → Option HSt → P HSt
  | 0, _, _, _, _ => failE
  | fuel + 1, strings, ty, enums, dec => do
    let mark ← bytesN 4
    if mark = tag "STR" then do
      let tbl ← readStringSection be
      readSections be fuel tbl ty enums dec
    else if mark = tag "TYP" then do
      let ty' ← readTypeSection be strings
      match enumTables strings ty'.types with
      | none => failP
      | some en => readSections be fuel strings ty' en dec
    else if mark = tag "WKT" then do
      let h ← bytesN 4
      zerosOk h
      let rec wk : Nat → P Unit
        | 0 => failE
        | f + 1 => do
          let t ← u8
          if t = 0 then pure () else
          if t > 3 then failE else do
            let id ← readTypeId
            -- the checks are debug assertions, but `tables.types[type_id.index()]` is evaluated
            if (typeAt ty.types id).isNone then failP else wk f
      fun s => (wk (s.length + 1)) s
      readSections be fuel strings ty enums dec
    else if mark = tag "HIE" then do
      let h ← readHierarchySection be { strings := strings, types := ty.types, enums := enums }
      readSections be fuel strings ty enums (some h)
    else if mark = tag "EOH" then
      match dec with
      | none => failP
      | some h => pure h
    else failE

/-! ### values -/

/-- `get_data_index` -/
def dataIndex (bits bit : Nat) (st : States) : Nat × Nat :=
  let bib := st.bib
  let nbytes := divCeil bits bib
  (nbytes - 1 - bit / bib, (bit % bib) * st.bits)

structure VecBuf where
  info : VecInfo
  bits : Nat
  st : States
  data : List Nat
  change : List Nat        -- one byte per 8 bits
  sigChanged : Bool := false
deriving Inhabited

def VecBuf.ofInfo (v : VecInfo) : VecBuf :=
  let bits := v.max - v.min + 1
  let st := if v.two then States.two else States.nine
  { info := v, bits := bits, st := st, data := List.replicate (divCeil bits st.bib) 0,
    change := List.replicate (divCeil bits 8) 0 }

def VecBuf.hasBitChanged (v : VecBuf) (bit : Nat) : Bool := (v.change.getD (bit / 8) 0 >>> (bit % 8)) &&& 1 == 1

def VecBuf.getValue (v : VecBuf) (bit : Nat) : Nat :=
  let (i, sh) := dataIndex v.bits bit v.st
  (v.data.getD i 0 >>> sh) &&& v.st.mask

def VecBuf.setValue (v : VecBuf) (bit value : Nat) : VecBuf :=
  let (i, sh) := dataIndex v.bits bit v.st
  let old := (v.data.getD i 0) &&& ((255 - ((v.st.mask <<< sh) % 256)))
  { v with data := v.data.set i ((old ||| (value <<< sh)) % 256) }

def VecBuf.markBit (v : VecBuf) (bit : Nat) : VecBuf :=
  { v with change := v.change.set (bit / 8) ((v.change.getD (bit / 8) 0) ||| (1 <<< (bit % 8))) }

/-- `full_signal_has_changed` (the partial byte is looked for at position 0) -/
def VecBuf.fullChanged (v : VecBuf) : Bool :=
  let skip := if v.bits % 8 = 0 then 0 else 1
  (v.change.drop skip).all (· == 255) && (skip = 0 || v.change.getD 0 0 == (1 <<< (v.bits % 8)) - 1)

def VecBuf.clear (v : VecBuf) : VecBuf := { v with change := v.change.map fun _ => 0, sigChanged := false }

structure VSt where
  vecs : Array VecBuf
  changeList : List Nat := []     -- reversed
  ops : List Spec.Op := []        -- reversed

def stdLut : List Nat := Gen.stdLogicLut

/-- `read_signal_value` for one signal id (1-based) -/
def readSignalValue (infos : Array SigInfo) (sigId : Nat) (s : VSt) : P VSt :=
  match infos[sigId - 1]? with
  | none => failP
  | some info =>
    match info.tpe with
    | .nineState => do
      let g ← u8
      let v ← ofOptP stdLut[g]?
      pure { s with ops := .raw info.ref .nine [v] :: s.ops }
    | .twoState => do
      let g ← u8
      pure { s with ops := .raw info.ref .two [g] :: s.ops }
    | .u8 => do
      let g ← u8
      pure { s with ops := .raw info.ref .two [g] :: s.ops }
    | .leb => do
      let v ← sleb
      let n := (v % 2 ^ 64).toNat
      let bytes := (List.range 8).reverse.map fun k => (n >>> (8 * k)) % 256
      pure { s with ops := .raw info.ref .two bytes :: s.ops }
    | .f64 => do
      let b ← bytesN 8
      pure { s with ops := .real info.ref b :: s.ops }
    | .nineStateVec | .twoStateVec => do
      let g ← u8
      let value ← (if info.tpe = .nineStateVec then ofOptP stdLut[g]? else pure g)
      match info.vec with
      | none => failP
      | some vid =>
        match s.vecs[vid]? with
        | none => failP
        | some vb =>
          if sigId - 1 > vb.info.max then failP else
          let bit := vb.info.max - (sigId - 1)
          -- second change of the same bit in this time step: dispatch first
          let (vb, ops) := if vb.hasBitChanged bit && vb.getValue bit != value % 256 then (vb.clear, Spec.Op.raw vb.info.ref vb.st vb.data :: s.ops) else (vb, s.ops)
          let wasListed := vb.sigChanged
          let vb := (vb.markBit bit).setValue bit value
          let (vb, cl) := if wasListed then (vb, s.changeList) else ({ vb with sigChanged := true }, vid :: s.changeList)
          let (vb, ops) := if vb.fullChanged then (vb.clear, Spec.Op.raw vb.info.ref vb.st vb.data :: ops) else (vb, ops)
          pure { vecs := s.vecs.set! vid vb, changeList := cl, ops := ops }

/-- `finish_time_step` -/
def finishStep (s : VSt) : VSt :=
  s.changeList.reverse.foldl (fun (s : VSt) vid =>
    match s.vecs[vid]? with
    | none => s
    | some vb => if vb.sigChanged then { s with vecs := s.vecs.set! vid vb.clear, ops := .raw vb.info.ref vb.st vb.data :: s.ops } else s)
    { s with changeList := [] }

def snapshotLoop (infos : Array SigInfo) : Nat → Nat → VSt → P VSt
  | 0, _, s => pure s
  | n + 1, id, s => do
    let s' ← readSignalValue infos id s
    snapshotLoop infos n (id + 1) s'

def readSnapshot (be : Bool) (infos : Array SigInfo) (s : VSt) : P VSt := do
  let h ← bytesN 12
  zerosOk h
  let t := (i64Of be (h.drop 4) % 2 ^ 64).toNat
  let s1 := { s with ops := .time t :: s.ops }
  let s2 ← snapshotLoop infos infos.size 1 s1
  let e ← bytesN 4
  if e = tag "ESN" then pure (finishStep s2) else failE

def cycleSignals (infos : Array SigInfo) : Nat → Nat → VSt → P VSt
  | 0, _, _ => failE
  | fuel + 1, pos, s => do
    let d ← uleb
    if d = 0 then pure s else
    let s' ← readSignalValue infos ((pos + d) % 2 ^ 32) s
    cycleSignals infos fuel (pos + d) s'

def cycleLoop (infos : Array SigInfo) : Nat → Nat → VSt → P VSt
  | 0, _, _ => failE
  | fuel + 1, t, s => do
    let s1 := { s with ops := .time t :: s.ops }
    let s2 ← (fun inp => cycleSignals infos (inp.length + 1) 0 s1 inp : P VSt)
    let s3 := finishStep s2
    let d ← sleb
    if d < 0 then pure s3 else cycleLoop infos fuel ((t + d.toNat) % 2 ^ 64) s3

def readCycle (be : Bool) (infos : Array SigInfo) (s : VSt) : P VSt := do
  let h ← bytesN 8
  let t := (i64Of be h % 2 ^ 64).toNat
  let s' ← (fun inp => cycleLoop infos (inp.length + 1) t s inp : P VSt)
  let e ← bytesN 4
  if e = tag "ECY" then pure s' else failE

def readSignals (be : Bool) (infos : Array SigInfo) : Nat → VSt → P VSt
  | 0, _ => failE
  | fuel + 1, s => do
    let mark ← bytesN 4
    if mark = tag "SNP" then do
      let s' ← readSnapshot be infos s
      readSignals be infos fuel s'
    else if mark = tag "CYC" then do
      let s' ← readCycle be infos s
      readSignals be infos fuel s'
    else if mark = tag "DIR" then do
      readDirectory be
      readSignals be infos fuel s
    else if mark = tag "TAI" then do
      let _ ← bytesN 8
      pure s
    else failE

/-! ### putting it together -/

def kindChar : States → String
  | .two => "B" | .four => "F" | .nine => "N"

def showLoaded (tpe : SigType) (l : Loaded) : Option String := do
  let vals ← (l.times.zip l.entries).mapM fun (t, e) =>
    match tpe with
    | .bitvec bits => do
      let (st, cs) ← entryString l.maxStates bits e
      some s!"{t}={kindChar st}{strOf cs}"
    | .real => some s!"{t}=R{toHex e}"
    | .string => some s!"{t}=S{toHex e}"
  some (if vals.isEmpty then "-" else "/".intercalate vals)

def natList (l : List Nat) : String := if l.isEmpty then "-" else ",".intercalate (l.map toString)

def codec : Codec := { wantCompress := fun d => (d.foldl (· + ·) 0) % 3 != 0 }

/-- the whole file; reply text or `err` / `panic` -/
def load (all : List Nat) : String :=
  match readGhwHeader all with
  | .err => "err" | .panic => "panic"
  | .ok be rest =>
    if !directoryOk be all then "err" else
    match readSections be (all.length + 1) #[] {} #[] none rest with
    | .err => "err" | .panic => "panic"
    | .ok h body =>
      let infos := h.tr.signals.toList.filterMap id |>.toArray
      let nref := h.tr.refCount
      let types : List SigType := (List.range nref).map fun r => ((h.enc.find? (·.1 == r)).map (·.2)).getD .string
      let vs : VSt := { vecs := h.tr.vectors.map VecBuf.ofInfo }
      match readSignals be infos (body.length + 1) vs body with
      | .err => "err" | .panic => "panic"
      | .ok vs _ =>
        match Spec.runOps codec (newEnc types) vs.ops.reverse with
        | none => "panic"
        | some enc =>
          let (reader, tt) := finish codec enc
          -- load every signal; slices are cut out of their parent
          let loadOne (r : Nat) : Option String :=
            match h.tr.aliases.find? (·.ref == r) with
            | some a =>
              match types[a.sliced]?, types[r]? with
              | some (.bitvec pbits), some tp => do
                let l ← loadSignal reader a.sliced (.bitvec pbits)
                let sl ← Slice.sliceSignal l pbits a.msb a.lsb
                showLoaded tp sl
              | _, _ => none
            | none =>
              match types[r]? with
              | some tp => (loadSignal reader r tp).bind (showLoaded tp)
              | none => none
          let table := (List.range nref).map fun r => (loadOne r).getD "panic"
          if table.contains "panic" then "panic" else
          match treeB h.ops.reverse (fun r => table.getD r "?") with
          | none => "panic"
          | some t => t ++ "|tt=" ++ natList tt ++ "|ts=1:FemtoSeconds"

end Wellen.Ghw
