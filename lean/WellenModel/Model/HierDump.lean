import WellenModel.Model.Hier
/-
Canonical text dump of the navigation surface of a hierarchy — once computed from the pointer-level
model (`Builder`), once from the abstract tree (`SpecSt`). Same format as harness/src/hier.rs.
-/
namespace Wellen.Hier

def joinWith (sep : String) (l : List String) : String := sep.intercalate l

def openBrace : String := "){"
def closeBrace : String := "}"

def optStr : Option Nat → String
  | none => "-"
  | some n => toString n

/-! ### from the pointer-level model -/

structure WalkOut where
  tree : String := ""
  ls : List String := []     -- reversed
  lv : List String := []     -- reversed
  lvi : List String := []    -- reversed: lookups with an index

def walkB (b : Builder) : Nat → List ItemId → List String → WalkOut → WalkOut
  | 0, _, _, o => o
  | _, [], _, o => o
  | fuel + 1, it :: rest, path, o =>
    let sep := if o.tree.isEmpty || o.tree.back == '{' then "" else ","
    match it with
    | .scope i =>
      let name := (b.scopes.getD i default).name
      let p := path ++ [name]
      let t1 := o.tree ++ sep ++ "S(" ++ name ++ openBrace
      let l1 := (joinWith "/" (p ++ ["~none~"]) ++ "=" ++ optStr (lookupScope b (p ++ ["~none~"]))) ::
              (joinWith "/" p ++ "=" ++ optStr (lookupScope b p)) :: o.ls
      let o1 : WalkOut := { o with tree := t1, ls := l1 }
      let o2 := walkB b fuel (itemsOf b (b.scopes.getD i default).child) p o1
      walkB b fuel rest path { o2 with tree := o2.tree ++ closeBrace }
    | .var i =>
      let v := b.vars.getD i default
      let t1 := o.tree ++ sep ++ s!"V({v.name},{v.sig})"
      let l1 := (joinWith "/" path ++ ":" ++ v.name ++ "=" ++ optStr (lookupVar b path v.name)) :: o.lv
      let l2 := if v.name.contains '@' then
          (joinWith "/" path ++ ":" ++ v.name ++ "9=" ++ optStr (lookupVarIdx b path (v.name ++ "9"))) ::
          (joinWith "/" path ++ ":" ++ v.name ++ "=" ++ optStr (lookupVarIdx b path v.name)) :: o.lvi
        else o.lvi
      let o1 : WalkOut := { o with tree := t1, lv := l1, lvi := l2 }
      walkB b fuel rest path o1

def dumpB (b : Builder) : String :=
  let n := nodeCount b
  let w := walkB b (2 * n + 2) (itemsOf b b.firstItem) [] {}
  let top := itemsOf b b.firstItem
  let nameV := fun (i : Nat) => (b.vars.getD i default).name
  let nameS := fun (i : Nat) => (b.scopes.getD i default).name
  let sc0 := "<top>[" ++ joinWith "," ((varsIn top).map nameV) ++ "|" ++ joinWith "," ((scopesIn top).map nameS) ++ "]"
  let scs := (List.range b.scopes.size).map fun i =>
    let kids := itemsOf b (b.scopes.getD i default).child
    scopeFullName b i ++ "[" ++ joinWith "," ((varsIn kids).map fun v => s!"{nameV v}#{v}") ++ "|" ++
      joinWith "," ((scopesIn kids).map fun s => s!"{nameS s}#{s}") ++ "]"
  let iv := (List.range b.vars.size).map (varFullName b)
  let is := (List.range b.scopes.size).map (scopeFullName b)
  let ns := b.handleToNode.size
  let st := String.ofList ((List.range (ns + 1)).map fun i => if (b.handleToNode.getD i none).isSome then '1' else '0')
  let us := (List.range ns).map fun i => match b.handleToNode.getD i none with
    | some v => varFullName b v
    | none => "-"
  let ok := (List.range b.vars.size).all fun i =>
    let s := (b.vars.getD i default).sig
    s < ns && (b.handleToNode.getD s none).isSome
  let fs := if b.scopes.size = 0 then "-" else scopeFullName b 0
  s!"T={w.tree};SC={joinWith " " (sc0 :: scs)};IV={joinWith "," iv};IS={joinWith "," is};LS={joinWith " " w.ls.reverse};LV={joinWith " " w.lv.reverse};LVI={joinWith " " w.lvi.reverse};NS={ns};ST={st};US={joinWith "," us};OK={if ok then 1 else 0};FS={fs}"

/-! ### from the abstract specification -/

def specFullName (nodes : List FNode) : Nat → Nat → String
  | 0, i => (nodes.getD i default).name
  | fuel + 1, i =>
    let n := nodes.getD i default
    match n.parent with
    | none => n.name
    | some p => specFullName nodes fuel p ++ "." ++ n.name

/-- scope id / var id = rank among the nodes of the same kind -/
def rankOf (nodes : List FNode) (i : Nat) : Nat :=
  ((nodes.take i).filter fun n => n.isScope == (nodes.getD i default).isScope).length

/-- `lookup_scope`: the first declared scope with each name along the path -/
def specLookupScope (nodes : List FNode) : Option Nat → List String → Option Nat
  | _, [] => none
  | cur, [n] => findIdx? (fun x => x.isScope && x.parent == cur && x.name == n) nodes 0
  | cur, n :: rest =>
    match findIdx? (fun x => x.isScope && x.parent == cur && x.name == n) nodes 0 with
    | none => none
    | some j => specLookupScope nodes (some j) rest

def specLookupVar (nodes : List FNode) (path : List String) (name : String) : Option Nat :=
  match path with
  | [] => findIdx? (fun x => !x.isScope && x.parent == none && baseName x.name == baseName name) nodes 0
  | _ => match specLookupScope nodes none path with
    | none => none
    | some j => findIdx? (fun x => !x.isScope && x.parent == some j && baseName x.name == baseName name) nodes 0

/-- with an index: the first declared variable with that path, name and index -/
def specLookupVarIdx (nodes : List FNode) (path : List String) (key : String) : Option Nat :=
  match path with
  | [] => findIdx? (fun x => !x.isScope && x.parent == none && x.name == key) nodes 0
  | _ => match specLookupScope nodes none path with
    | none => none
    | some j => findIdx? (fun x => !x.isScope && x.parent == some j && x.name == key) nodes 0

def walkS (nodes : List FNode) : Nat → List Nat → List String → WalkOut → WalkOut
  | 0, _, _, o => o
  | _, [], _, o => o
  | fuel + 1, i :: rest, path, o =>
    let sep := if o.tree.isEmpty || o.tree.back == '{' then "" else ","
    let n := nodes.getD i default
    if n.isScope then
      let p := path ++ [n.name]
      let t1 := o.tree ++ sep ++ "S(" ++ n.name ++ openBrace
      let l1 := (joinWith "/" (p ++ ["~none~"]) ++ "=" ++ optStr ((specLookupScope nodes none (p ++ ["~none~"])).map (rankOf nodes))) ::
              (joinWith "/" p ++ "=" ++ optStr ((specLookupScope nodes none p).map (rankOf nodes))) :: o.ls
      let o2 := walkS nodes fuel (childrenOf nodes (some i)) p { o with tree := t1, ls := l1 }
      walkS nodes fuel rest path { o2 with tree := o2.tree ++ closeBrace }
    else
      let t1 := o.tree ++ sep ++ s!"V({n.name},{n.sig})"
      let l1 := (joinWith "/" path ++ ":" ++ n.name ++ "=" ++ optStr ((specLookupVar nodes path n.name).map (rankOf nodes))) :: o.lv
      let l2 := if n.name.contains '@' then
          (joinWith "/" path ++ ":" ++ n.name ++ "9=" ++ optStr ((specLookupVarIdx nodes path (n.name ++ "9")).map (rankOf nodes))) ::
          (joinWith "/" path ++ ":" ++ n.name ++ "=" ++ optStr ((specLookupVarIdx nodes path n.name).map (rankOf nodes))) :: o.lvi
        else o.lvi
      walkS nodes fuel rest path { o with tree := t1, lv := l1, lvi := l2 }

def dumpT (s : SpecSt) : String :=
  let nodes := s.nodes
  let n := nodes.length
  let w := walkS nodes (2 * n + 2) (childrenOf nodes none) [] {}
  let idx := List.range n
  let scopes := idx.filter fun i => (nodes.getD i default).isScope
  let vars := idx.filter fun i => !(nodes.getD i default).isScope
  let nm := fun (i : Nat) => (nodes.getD i default).name
  let fn := fun (i : Nat) => specFullName nodes n i
  let kidV := fun (p : Option Nat) => (childrenOf nodes p).filter fun i => !(nodes.getD i default).isScope
  let kidS := fun (p : Option Nat) => (childrenOf nodes p).filter fun i => (nodes.getD i default).isScope
  let sc0 := "<top>[" ++ joinWith "," ((kidV none).map nm) ++ "|" ++ joinWith "," ((kidS none).map nm) ++ "]"
  let scs := scopes.map fun i => fn i ++ "[" ++ joinWith "," ((kidV (some i)).map fun v => s!"{nm v}#{rankOf nodes v}") ++ "|" ++
      joinWith "," ((kidS (some i)).map fun c => s!"{nm c}#{rankOf nodes c}") ++ "]"
  let ns := vars.foldl (fun acc i => max acc ((nodes.getD i default).sig + 1)) 0
  let lastFor := fun (sg : Nat) => (vars.filter fun i => (nodes.getD i default).sig = sg).getLast?
  let st := String.ofList ((List.range (ns + 1)).map fun i => if (lastFor i).isSome then '1' else '0')
  let us := (List.range ns).map fun i => match lastFor i with | some v => fn v | none => "-"
  let fs := match scopes with | [] => "-" | i :: _ => fn i
  s!"T={w.tree};SC={joinWith " " (sc0 :: scs)};IV={joinWith "," (vars.map fn)};IS={joinWith "," (scopes.map fn)};LS={joinWith " " w.ls.reverse};LV={joinWith " " w.lv.reverse};LVI={joinWith " " w.lvi.reverse};NS={ns};ST={st};US={joinWith "," us};OK=1;FS={fs}"

def parseOp (s : String) : Option Op :=
  match s.splitOn ":" with
  | ["s", name, f] => some (.scope name (f = "1"))
  | ["v", name, sig] => sig.toNat?.map (.var name)
  | ["p"] => some .pop
  | _ => none

/-- (model reply, spec reply) for a `hier` request -/
def handle (ops : String) : String × String :=
  match (if ops = "-" then some [] else (ops.splitOn ";").mapM parseOp) with
  | none => ("bad-request", "-")
  | some l =>
    let m := match run l with | some b => dumpB b | none => "panic"
    let sp := match specRun l with | some s => dumpT s | none => "-"
    (m, sp)

end Wellen.Hier
