import WellenModel.Model.Spec
/-
M9 `Fst` — model of fst.rs: SignalWriter::{new, add_change, finish} (102-266), expand_entries
(286-326, after the fix F15), the forward time-index cursor of FstWaveDatabase::load_signals
(65-92) and convert_timescale (458-486).
-/
namespace Wellen.Fst
open Wellen.Bits Wellen.Store

/-- `expand_entries` on one entry -/
def expandEntry (frm to : States) (bits : Nat) (value : List Nat) : List Nat :=
  let (fromLen, fromMeta) := getLenAndMeta frm bits
  let (toLen, toMeta) := getLenAndMeta to bits
  if fromLen = toLen ∧ fromMeta = toMeta then value else
  let padding := if !toMeta then toLen - fromLen - 1 else toLen - fromLen
  let md := if frm = .two then 0 else (value.headD 0) &&& 192
  md :: (zeros padding ++
    (if fromMeta then value.drop 1
     else if frm = .two then value
     else ((value.headD 0) &&& 63) :: value.drop 1))

structure Writer where
  tpe : SigType
  maxStates : States := .two
  acc : Acc := {}
deriving Inhabited

inductive WValue
  | chars (cs : List Nat)     -- FstSignalValue::String
  | real (le : List Nat)      -- FstSignalValue::Real
deriving Repr, Inhabited

/-- `SignalWriter::add_change`; `none` = panic -/
def addChange (w : Writer) (timeIdx : Nat) : WValue → Option Writer
  | .chars value =>
    match w.tpe with
    | .string => some { w with acc := w.acc.push timeIdx value }
    | .real => none
    | .bitvec bits =>
      match checkStates value, charsToNums value with
      | some loc, some nums =>
        let sigS := States.join w.maxStates loc
        let acc := if sigS ≠ w.maxStates
          then { w.acc with entriesRev := w.acc.entriesRev.map (expandEntry w.maxStates sigS bits) }
          else w.acc
        let (len, hasMeta) := getLenAndMeta sigS bits
        let (llen, lmeta) := getLenAndMeta loc bits
        let md := loc.toNat <<< 6
        let entry :=
          if llen = len ∧ lmeta = hasMeta then
            (if hasMeta then md :: writeNState loc nums none else writeNState loc nums (some md))
          else md :: (zeros (if hasMeta then len - llen else len - llen - 1) ++ writeNState loc nums none)
        some { w with maxStates := sigS, acc := acc.push timeIdx entry }
      | _, _ => none
  | .real le => some { w with acc := w.acc.push timeIdx le }

def runWriter (tpe : SigType) (changes : List (Nat × WValue)) : Option Loaded :=
  match changes.foldl (fun (acc : Option Writer) (c : Nat × WValue) => acc.bind fun w => addChange w c.1 c.2)
      (some { tpe := tpe }) with
  | none => none
  | some w => some { maxStates := w.maxStates, times := w.acc.timesRev.reverse, entries := w.acc.entriesRev.reverse }

/-- the time-index cursor of `load_signals`: index of callback time `t` in the time table, moving
forward only; `none` = `unwrap` on an exhausted iterator -/
def cursorAdvance (tt : List Nat) (idx : Nat) (t : Nat) : Nat → Option Nat
  | 0 => none
  | fuel + 1 =>
    match tt[idx]? with
    | none => none
    | some cur => if cur < t then cursorAdvance tt (idx + 1) t fuel else some idx

/-- `convert_timescale`: (factor, unit exponent); `none` = panic -/
def convertTimescale (e : Int) : Option (Nat × Int) :=
  if e ≥ 0 then (if e < 10 then some (10 ^ e.toNat, 0) else none)
  else if e ≥ -3 then some (10 ^ (e + 3).toNat, -3)
  else if e ≥ -6 then some (10 ^ (e + 6).toNat, -6)
  else if e ≥ -9 then some (10 ^ (e + 9).toNat, -9)
  else if e ≥ -12 then some (10 ^ (e + 12).toNat, -12)
  else if e ≥ -15 then some (10 ^ (e + 15).toNat, -15)
  else none

end Wellen.Fst
