import WellenModel.Model.Spec
/-
M11 `Slice` — model of signals.rs: slice_signal / slice_bit_vector / slice_n_states (374-465) and
BitVectorBuilder::{new, add_change, finish} (284-372), after the fixes F11, F12, F14.
`repack` is the common core of `slice_n_states` (inS = outS) and `compress_template`
(lsb = 0, all bits): symbols are fetched at bit positions of a right-aligned big-endian packed
value — the same addressing as ghw `get_data_index` — and packed again.
-/
namespace Wellen.Slice
open Wellen.Bits Wellen.Store

/-- the symbol at bit position `i` (0 = least significant) of a packed value -/
def symAt (s : States) (data : List Nat) (i : Nat) : Nat :=
  ((data.getD (data.length - 1 - i / s.bib) 0) >>> ((i % s.bib) * s.bits)) &&& s.mask

/-- fetch `n` symbols starting at bit `lsb` (highest first) and pack them with `outS` -/
def repack (inS outS : States) (data : List Nat) (lsb : Nat) : Nat → Nat → List Nat
  | 0, _ => []
  | ob + 1, w =>
    let v := symAt inS data (lsb + ob)
    let w' := ((w <<< outS.bits) % 256) + v
    if ob % outS.bib = 0 then w' :: repack inS outS data lsb ob 0 else repack inS outS data lsb ob w'

/-- `slice_n_states`; `none` = index out of bounds (msb beyond the value) -/
def sliceNStates (s : States) (data : List Nat) (msb lsb : Nat) : Option (List Nat) :=
  if msb / s.bib ≥ data.length ∨ msb < lsb then none
  else some (repack s s data lsb (msb - lsb + 1) 0)

/-- one change of `slice_bit_vector`: slice, reduce to the minimal encoding, build the entry -/
def sliceEntry (maxS : States) (pbits : Nat) (msb lsb : Nat) (raw : List Nat) : Option (List Nat) :=
  let rbits := msb - lsb + 1
  let (_, metaByte) := getLenAndMeta maxS pbits
  -- `iter_changes` of a 1-bit parent never reaches here (assert bits > out_bits)
  match decodeEntry maxS pbits metaByte raw with
  | none => none
  | some (st, d) =>
    match sliceNStates st d msb lsb with
    | none => none
    | some buf =>
      let minS := checkMinState buf st
      let buf := if minS = st then buf else repack st minS buf 0 rbits 0
      if rbits = 1 then some [((buf.headD 0) &&& 15) ||| (minS.toNat <<< 6)]
      else some (alignEntry maxS minS rbits buf)

/-- `slice_signal` on a loaded bit-vector signal -/
def sliceSignal (l : Loaded) (pbits msb lsb : Nat) : Option Loaded :=
  let step := fun (acc : Option Acc) (p : Nat × List Nat) =>
    match acc with
    | none => none
    | some a => match sliceEntry l.maxStates pbits msb lsb p.2 with
      | none => none
      | some e => some (a.push p.1 e)
  match (l.times.zip l.entries).foldl step (some {}) with
  | none => none
  | some a => some { maxStates := l.maxStates, times := a.timesRev.reverse, entries := a.entriesRev.reverse }

end Wellen.Slice
