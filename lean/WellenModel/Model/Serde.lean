/-
M14 `Serde` — the serde data model of the `serde1`-derived types of hierarchy.rs, signals.rs,
wavemem.rs and lib.rs, following the documented behaviour of `#[derive(Serialize, Deserialize)]`
with a self-describing format (serde_json): struct ↦ map of fields, newtype struct ↦ inner value,
unit variant ↦ its name, newtype / struct variant ↦ one-entry map, `Option` ↦ null / value,
tuple ↦ sequence, `NonZero*` ↦ integer with zero rejected, `HashMap<SignalRef, _>` ↦ map with the
integer as key text.
-/
namespace Wellen.Serde

inductive SVal
  | null
  | bool (b : Bool)
  | int (i : Int)
  | str (s : String)
  | seq (l : List SVal)
  | map (l : List (String × SVal))
deriving Repr, Inhabited

/-! decoders -/
def asNat : SVal → Option Nat | .int i => if i ≥ 0 then some i.toNat else none | _ => none
def asNz : SVal → Option Nat | .int i => if i > 0 then some i.toNat else none | _ => none
def asInt : SVal → Option Int | .int i => some i | _ => none
def asStr : SVal → Option String | .str s => some s | _ => none
def asBool : SVal → Option Bool | .bool b => some b | _ => none
def asOpt {α : Type} (d : SVal → Option α) : SVal → Option (Option α)
  | .null => some none
  | v => (d v).map some
def asList {α : Type} (d : SVal → Option α) : SVal → Option (List α)
  | .seq l => l.mapM d
  | _ => none
def asEnum (names : List String) : SVal → Option String
  | .str s => if names.contains s then some s else none
  | _ => none
def fld (m : List (String × SVal)) (k : String) : Option SVal := m.lookup k
def asMap : SVal → Option (List (String × SVal)) | .map m => some m | _ => none

def ofOpt {α : Type} (e : α → SVal) : Option α → SVal | none => .null | some a => e a

def scopeTypes : List String := ["Module", "Task", "Function", "Begin", "Fork", "Generate", "Struct", "Union", "Class",
  "Interface", "Package", "Program", "VhdlArchitecture", "VhdlProcedure", "VhdlFunction", "VhdlRecord", "VhdlProcess",
  "VhdlBlock", "VhdlForGenerate", "VhdlIfGenerate", "VhdlGenerate", "VhdlPackage", "GhwGeneric", "VhdlArray"]
def varTypes : List String := ["Event", "Integer", "Parameter", "Real", "Reg", "Supply0", "Supply1", "Time", "Tri", "TriAnd",
  "TriOr", "TriReg", "Tri0", "Tri1", "WAnd", "Wire", "WOr", "String", "Port", "SparseArray", "RealTime", "Bit", "Logic", "Int",
  "ShortInt", "LongInt", "Byte", "Enum", "ShortReal", "Boolean", "BitVector", "StdLogic", "StdLogicVector", "StdULogic",
  "StdULogicVector"]
def directions : List String := ["Unknown", "Implicit", "Input", "Output", "InOut", "Buffer", "Linkage"]
def units : List String := ["FemtoSeconds", "PicoSeconds", "NanoSeconds", "MicroSeconds", "MilliSeconds", "Seconds", "Unknown"]
def formats : List String := ["Vcd", "Fst", "Ghw", "Unknown"]
def statesNames : List String := ["Two", "Four", "Nine"]

/-! VarIndex { lsb: i64, width: NonZeroI32 } -/
structure VarIndexM where
  lsb : Int
  width : Int
deriving Repr, DecidableEq
def VarIndexM.toS (v : VarIndexM) : SVal := .map [("lsb", .int v.lsb), ("width", .int v.width)]
def VarIndexM.ofS (s : SVal) : Option VarIndexM := do
  let m ← asMap s
  let lsb ← (← fld m "lsb") |> asInt
  let w ← (← fld m "width") |> asInt
  if w = 0 then none else some { lsb := lsb, width := w }

/-! SignalEncoding -/
inductive SigEncM | string | real | bitvec (n : Nat)
deriving Repr, DecidableEq
def SigEncM.toS : SigEncM → SVal
  | .string => .str "String" | .real => .str "Real" | .bitvec n => .map [("BitVector", .int n)]
def SigEncM.ofS : SVal → Option SigEncM
  | .str "String" => some .string
  | .str "Real" => some .real
  | .map [("BitVector", v)] => (asNz v).map .bitvec
  | _ => none

/-! HierarchyItemId -/
inductive ItemIdM | scope (r : Nat) | var (r : Nat)
deriving Repr, DecidableEq
def ItemIdM.toS : ItemIdM → SVal
  | .scope r => .map [("Scope", .int r)] | .var r => .map [("Var", .int r)]
def ItemIdM.ofS : SVal → Option ItemIdM
  | .map [("Scope", v)] => (asNz v).map .scope
  | .map [("Var", v)] => (asNz v).map .var
  | _ => none

structure VarM where
  name : Nat
  varTpe : String
  direction : String
  signalEncoding : SigEncM
  index : Option VarIndexM
  signalIdx : Nat
  enumType : Option Nat
  vhdlTypeName : Option Nat
  parent : Option Nat
  next : Option ItemIdM
deriving Repr, DecidableEq

def nz (n : Nat) : SVal := .int n

def VarM.toS (v : VarM) : SVal := .map [
  ("name", nz v.name), ("var_tpe", .str v.varTpe), ("direction", .str v.direction),
  ("signal_encoding", v.signalEncoding.toS), ("index", ofOpt VarIndexM.toS v.index),
  ("signal_idx", nz v.signalIdx), ("enum_type", ofOpt nz v.enumType),
  ("vhdl_type_name", ofOpt nz v.vhdlTypeName), ("parent", ofOpt nz v.parent), ("next", ofOpt ItemIdM.toS v.next)]

def VarM.ofS (s : SVal) : Option VarM := do
  let m ← asMap s
  some {
    name := ← (← fld m "name") |> asNz
    varTpe := ← (← fld m "var_tpe") |> asEnum varTypes
    direction := ← (← fld m "direction") |> asEnum directions
    signalEncoding := ← (← fld m "signal_encoding") |> SigEncM.ofS
    index := ← (← fld m "index") |> asOpt VarIndexM.ofS
    signalIdx := ← (← fld m "signal_idx") |> asNz
    enumType := ← (← fld m "enum_type") |> asOpt asNz
    vhdlTypeName := ← (← fld m "vhdl_type_name") |> asOpt asNz
    parent := ← (← fld m "parent") |> asOpt asNz
    next := ← (← fld m "next") |> asOpt ItemIdM.ofS }

structure ScopeM where
  name : Nat
  component : Option Nat
  tpe : String
  declarationSource : Option Nat
  instanceSource : Option Nat
  child : Option ItemIdM
  parent : Option Nat
  next : Option ItemIdM
deriving Repr, DecidableEq

def ScopeM.toS (v : ScopeM) : SVal := .map [
  ("name", nz v.name), ("component", ofOpt nz v.component), ("tpe", .str v.tpe),
  ("declaration_source", ofOpt nz v.declarationSource), ("instance_source", ofOpt nz v.instanceSource),
  ("child", ofOpt ItemIdM.toS v.child), ("parent", ofOpt nz v.parent), ("next", ofOpt ItemIdM.toS v.next)]

def ScopeM.ofS (s : SVal) : Option ScopeM := do
  let m ← asMap s
  some {
    name := ← (← fld m "name") |> asNz
    component := ← (← fld m "component") |> asOpt asNz
    tpe := ← (← fld m "tpe") |> asEnum scopeTypes
    declarationSource := ← (← fld m "declaration_source") |> asOpt asNz
    instanceSource := ← (← fld m "instance_source") |> asOpt asNz
    child := ← (← fld m "child") |> asOpt ItemIdM.ofS
    parent := ← (← fld m "parent") |> asOpt asNz
    next := ← (← fld m "next") |> asOpt ItemIdM.ofS }

structure SourceLocM where
  path : Nat
  line : Nat
  isInstantiation : Bool
deriving Repr, DecidableEq
def SourceLocM.toS (v : SourceLocM) : SVal :=
  .map [("path", nz v.path), ("line", .int v.line), ("is_instantiation", .bool v.isInstantiation)]
def SourceLocM.ofS (s : SVal) : Option SourceLocM := do
  let m ← asMap s
  some { path := ← (← fld m "path") |> asNz, line := ← (← fld m "line") |> asNat,
         isInstantiation := ← (← fld m "is_instantiation") |> asBool }

structure EnumTypeM where
  name : Nat
  mapping : List (Nat × Nat)
deriving Repr, DecidableEq
def pairToS (p : Nat × Nat) : SVal := .seq [nz p.1, nz p.2]
def pairOfS : SVal → Option (Nat × Nat)
  | .seq [a, b] => do some (← asNz a, ← asNz b)
  | _ => none
def EnumTypeM.toS (v : EnumTypeM) : SVal := .map [("name", nz v.name), ("mapping", .seq (v.mapping.map pairToS))]
def EnumTypeM.ofS (s : SVal) : Option EnumTypeM := do
  let m ← asMap s
  some { name := ← (← fld m "name") |> asNz, mapping := ← (← fld m "mapping") |> asList pairOfS }

structure SliceM where
  msb : Nat
  lsb : Nat
  slicedSignal : Nat
deriving Repr, DecidableEq
def SliceM.toS (v : SliceM) : SVal := .map [("msb", .int v.msb), ("lsb", .int v.lsb), ("sliced_signal", nz v.slicedSignal)]
def SliceM.ofS (s : SVal) : Option SliceM := do
  let m ← asMap s
  some { msb := ← (← fld m "msb") |> asNat, lsb := ← (← fld m "lsb") |> asNat,
         slicedSignal := ← (← fld m "sliced_signal") |> asNz }

structure TimescaleM where
  factor : Nat
  unit : String
deriving Repr, DecidableEq
def TimescaleM.toS (v : TimescaleM) : SVal := .map [("factor", .int v.factor), ("unit", .str v.unit)]
def TimescaleM.ofS (s : SVal) : Option TimescaleM := do
  let m ← asMap s
  some { factor := ← (← fld m "factor") |> asNat, unit := ← (← fld m "unit") |> asEnum units }

structure MetaM where
  timescale : Option TimescaleM
  date : String
  version : String
  comments : List String
  fileFormat : String
deriving Repr, DecidableEq
def MetaM.toS (v : MetaM) : SVal := .map [("timescale", ofOpt TimescaleM.toS v.timescale), ("date", .str v.date),
  ("version", .str v.version), ("comments", .seq (v.comments.map .str)), ("file_format", .str v.fileFormat)]
def MetaM.ofS (s : SVal) : Option MetaM := do
  let m ← asMap s
  some { timescale := ← (← fld m "timescale") |> asOpt TimescaleM.ofS, date := ← (← fld m "date") |> asStr,
         version := ← (← fld m "version") |> asStr, comments := ← (← fld m "comments") |> asList asStr,
         fileFormat := ← (← fld m "file_format") |> asEnum formats }

structure HierM where
  vars : List VarM
  scopes : List ScopeM
  firstItem : Option ItemIdM
  strings : List String
  sourceLocs : List SourceLocM
  enums : List EnumTypeM
  signalIdxToVar : List (Option Nat)
  metaData : MetaM
  slices : List (Nat × SliceM)          -- HashMap<SignalRef, SignalSlice>: keys as decimal text
deriving Repr, DecidableEq

def sliceEntryToS (p : Nat × SliceM) : String × SVal := (toString p.1, p.2.toS)
def sliceEntryOfS (p : String × SVal) : Option (Nat × SliceM) := do
  let k ← p.1.toNat?
  if k = 0 then none else
  some (k, ← SliceM.ofS p.2)

def HierM.toS (h : HierM) : SVal := .map [
  ("vars", .seq (h.vars.map VarM.toS)), ("scopes", .seq (h.scopes.map ScopeM.toS)),
  ("first_item", ofOpt ItemIdM.toS h.firstItem), ("strings", .seq (h.strings.map .str)),
  ("source_locs", .seq (h.sourceLocs.map SourceLocM.toS)), ("enums", .seq (h.enums.map EnumTypeM.toS)),
  ("signal_idx_to_var", .seq (h.signalIdxToVar.map (ofOpt nz))), ("meta", h.metaData.toS),
  ("slices", .map (h.slices.map sliceEntryToS))]

def HierM.ofS (s : SVal) : Option HierM := do
  let m ← asMap s
  some {
    vars := ← (← fld m "vars") |> asList VarM.ofS
    scopes := ← (← fld m "scopes") |> asList ScopeM.ofS
    firstItem := ← (← fld m "first_item") |> asOpt ItemIdM.ofS
    strings := ← (← fld m "strings") |> asList asStr
    sourceLocs := ← (← fld m "source_locs") |> asList SourceLocM.ofS
    enums := ← (← fld m "enums") |> asList EnumTypeM.ofS
    signalIdxToVar := ← (← fld m "signal_idx_to_var") |> asList (asOpt asNz)
    metaData := ← (← fld m "meta") |> MetaM.ofS
    slices := ← (← asMap (← fld m "slices")).mapM sliceEntryOfS }

/-! Signal -/
inductive FwEncM
  | bitVector (maxStates : String) (bits : Nat) (metaByte : Bool)
  | real
deriving Repr, DecidableEq
def FwEncM.toS : FwEncM → SVal
  | .bitVector ms b mb => .map [("BitVector", .map [("max_states", .str ms), ("bits", .int b), ("meta_byte", .bool mb)])]
  | .real => .str "Real"
def FwEncM.ofS : SVal → Option FwEncM
  | .str "Real" => some .real
  | .map [("BitVector", .map m)] => do
    some (.bitVector (← (← fld m "max_states") |> asEnum statesNames) (← (← fld m "bits") |> asNat) (← (← fld m "meta_byte") |> asBool))
  | _ => none

inductive ChangeDataM
  | fixed (encoding : FwEncM) (width : Nat) (bytes : List Nat)
  | varLen (strings : List String)
deriving Repr, DecidableEq
def ChangeDataM.toS : ChangeDataM → SVal
  | .fixed e w b => .map [("FixedLength", .map [("encoding", e.toS), ("width", .int w), ("bytes", .seq (b.map fun (x : Nat) => SVal.int x))])]
  | .varLen s => .map [("VariableLength", .seq (s.map .str))]
def ChangeDataM.ofS : SVal → Option ChangeDataM
  | .map [("FixedLength", .map m)] => do
    some (.fixed (← (← fld m "encoding") |> FwEncM.ofS) (← (← fld m "width") |> asNat) (← (← fld m "bytes") |> asList asNat))
  | .map [("VariableLength", v)] => (asList asStr v).map .varLen
  | _ => none

structure SignalM where
  idx : Nat
  timeIndices : List Nat
  data : ChangeDataM
deriving Repr, DecidableEq
def SignalM.toS (s : SignalM) : SVal :=
  .map [("idx", nz s.idx), ("time_indices", .seq (s.timeIndices.map fun (x : Nat) => SVal.int x)), ("data", s.data.toS)]
def SignalM.ofS (v : SVal) : Option SignalM := do
  let m ← asMap v
  some { idx := ← (← fld m "idx") |> asNz, timeIndices := ← (← fld m "time_indices") |> asList asNat,
         data := ← (← fld m "data") |> ChangeDataM.ofS }

end Wellen.Serde
