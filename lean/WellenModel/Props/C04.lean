import WellenModel.Proofs.EntryRoundtrip
import WellenModel.Proofs.Stream
import WellenModel.Proofs.Block
import WellenModel.Proofs.Tables
import WellenModel.Model.Spec
import WellenModel.Proofs.Refine
import WellenModel.Proofs.RefineAll
import WellenModel.Proofs.SplitFree
/-!
# C04 — storage is transparent: packing, compression and segmentation never alter data

Model: `Model/Bits.lean`, `Model/Store.lean` (wavemem.rs, fst.rs 269-282, signals.rs 103-138, 568-620).
What is proved here, for all widths / kinds / values (no bounds):
* packing a symbol list and rendering it again is the identity (`C04_pack_unpack`);
* the in-memory entry built by the loader for one change decodes to the same symbols for every
  (widest kind of the signal, local kind of the value) combination, in both meta layouts
  (`C04_entry_roundtrip`, `C04_one_bit_roundtrip`), and the padding arithmetic never underflows;
* LEB128 numbers round-trip in front of any remaining stream (`C04_leb_roundtrip`);
* rendered characters are the lower-cased characters written, independent of the kind used for
  storage (`C04_char_faithful`, table-driven, regenerated from the code on every run).
Stream / block level: `C04_stream_*`, `C04_block_slice`, `C04_meta_*`, `C04_single_block_load*`, `C04_multi_block_load`.
END TO END (`C04_store_refines_spec`): for VCD vector signals of two or more bits the whole store — encoder bookkeeping
(time steps, skipping, block roll-over), chunk streams, `finish`, offsets, meta words, the compression decision, the
loader with its alignment and de-duplication — is proved equal to the abstract specification `Spec.run` for every
history and every block size. One-bit signals, reals, strings and the pre-encoded (GHW) write path are proved per
block (`C04_*_block_roundtrip`, `C04_single_block_load_*`); their composition across blocks is tied to `Spec.run` by
the differential run.
-/
namespace Wellen.Store
open Wellen.Bits

/-- packing then rendering is the identity: every state kind, every width, every symbol list -/
theorem C04_pack_unpack (s : States) (vals : List Nat) (hv : ∀ v ∈ vals, v < 2 ^ s.bits) :
    toSyms s (writeNState s vals none) vals.length = vals :=
  pack_unpack s vals hv

/-- a stored vector entry reads back as the symbols written, whatever the widest kind of the signal -/
theorem C04_entry_roundtrip (maxS loc : States) (syms : List Nat)
    (hbits : 2 ≤ syms.length) (hv : ∀ v ∈ syms, v < 2 ^ loc.bits) (hle : loc.toNat ≤ maxS.toNat) :
    ∃ d, decodeEntry maxS syms.length (getLenAndMeta maxS syms.length).2
           (alignEntry maxS loc syms.length (writeNState loc syms none)) = some (loc, d) ∧
         toSyms loc d syms.length = syms :=
  entry_roundtrip maxS loc syms hbits hv hle

/-- one-bit signals: value nibble and meta bits share one byte -/
theorem C04_one_bit_roundtrip (maxS : States) : ∀ v : Fin 9,
    (States.fromValue v.val).toNat ≤ maxS.toNat →
    (decodeEntry maxS 1 (getLenAndMeta maxS 1).2 (oneBitEntry v.val)).map (fun p => (p.1, toSyms p.1 p.2 1)) =
      some (States.fromValue v.val, [v.val]) := by
  cases maxS <;> decide +kernel

/-- the padding computation of the "smaller encoding" branch cannot underflow -/
theorem C04_align_no_underflow (maxS loc : States) (bits : Nat) (hle : loc.toNat ≤ maxS.toNat) (hb : 1 ≤ bits)
    (hdiff : ¬ ((getLenAndMeta loc bits).1 = (getLenAndMeta maxS bits).1 ∧
               (getLenAndMeta loc bits).2 = (getLenAndMeta maxS bits).2)) :
    if (getLenAndMeta maxS bits).2 then (getLenAndMeta loc bits).1 ≤ (getLenAndMeta maxS bits).1
    else (getLenAndMeta loc bits).1 + 1 ≤ (getLenAndMeta maxS bits).1 :=
  align_no_underflow maxS loc bits hle hb hdiff

/-- LEB128 round trip in front of any stream -/
theorem C04_leb_roundtrip (n : Nat) (rest : List Nat) : lebRead (lebWrite n ++ rest) = some (n, rest) :=
  lebRead_lebWrite n rest

/-- every accepted value character comes back as its lower-case self (table from the code) -/
theorem C04_char_faithful (c : Fin 256) (v : Nat) (h : bitCharToNum c.val = some v) :
    v < 9 ∧ Gen.lookup9[v]? = some (toLower c.val) :=
  bitChar_lookup c v h

/-- the character shown does not depend on the kind (2/4/9-state) a value is stored in -/
theorem C04_kind_independent_chars : Gen.lookup2 = Gen.lookup9.take 2 ∧ Gen.lookup4 = Gen.lookup9.take 4 :=
  lookup_prefix

/-! ### stream level: the payload of one signal in one block decodes into the changes that were written -/

/-- multi-bit signals: any number of changes, any deltas / kinds; the loader reproduces every change at the running time index
(`replayFixed` = push the aligned entry of each change, immediate repetitions dropped) -/
theorem C04_stream_fixed (bits : Nat) (hb : bits ≠ 1) (sigS : States) (cs : List (Nat × States × List Nat))
    (h : ∀ c ∈ cs, c.2.2.length = divCeil bits c.2.1.bib ∧ ((c.1 <<< 2) ||| c.2.1.toNat) < 2 ^ 32)
    (fuel last : Nat) (a : Acc) (hf : cs.length < fuel) :
    loadFixed bits sigS fuel (encStream cs) last a = some (replayFixed bits sigS cs last a).2 :=
  loadFixed_stream bits hb sigS cs h fuel last a hf

theorem C04_stream_onebit (sigS : States) (cs : List (Nat × Nat))
    (h : ∀ c ∈ cs, c.2 < 16 ∧ ((c.1 <<< 4) + c.2) < 2 ^ 32) (fuel last : Nat) (a : Acc) (hf : cs.length < fuel) :
    loadFixed 1 sigS fuel (encOneBit cs) last a = some (replayOneBit cs last a).2 :=
  loadFixed_stream_onebit sigS cs h fuel last a hf

theorem C04_stream_reals (cs : List (Nat × List Nat)) (h : ∀ c ∈ cs, c.2.length = 8 ∧ c.1 < 2 ^ 32)
    (fuel last : Nat) (a : Acc) (hf : cs.length < fuel) :
    loadReals fuel (encReals cs) last a = some (replayPlain cs last a).2 :=
  loadReals_stream cs h fuel last a hf

theorem C04_stream_strings (cs : List (Nat × List Nat)) (h : ∀ c ∈ cs, c.1 < 2 ^ 32)
    (fuel last : Nat) (a : Acc) (hf : cs.length < fuel) :
    loadStrings fuel (encStrings cs) last a = some (replayPlain cs last a).2 :=
  loadStrings_stream cs h fuel last a hf

/-- block level: the offset table of `finish_block` lets `get_offset_and_length` cut every signal's bytes back out of the block,
for every number of signals and every mix of signals with and without data -/
theorem C04_block_slice (c : Codec) (signals : Array SigEnc) (i : Nat) (d : List Nat)
    (hd : (signals.toList.map fun s => (finishSignal c s).2)[i]? = some (some d)) :
    let r := finishSignals c signals
    let b : Block := { startTime := 0, timeTable := [], offsets := r.2.1, data := r.2.2 }
    ∃ off len, b.offsetAndLength i = some (off, len) ∧ (b.data.drop off).take len = d :=
  block_slice c signals i d hd

/-- the meta word in front of a payload: kind and (for compressed payloads) a length bound that is large enough -/
theorem C04_meta_plain (s : States) : metaDecode (metaEncode s none) = some (s, none) := meta_roundtrip_plain s

theorem C04_meta_compressed (s : States) (l : Nat) (hl : divCeil l 32 < 2 ^ 32) :
    metaDecode (metaEncode s (some l)) = some (s, some (divCeil l 32 * 32)) ∧ l ≤ divCeil l 32 * 32 :=
  meta_roundtrip_compressed s l hl

/-- **one block, end to end**: whatever else is stored in the block and whatever the compression decision, a multi-bit signal whose
recorded data is the chunk stream of the changes `cs` is loaded back as exactly those changes (time index = running sum of the
deltas, aligned entries, immediate repetitions dropped) -/
theorem C04_single_block_load (c : Codec) (signals : Array SigEnc) (i : Nat) (s : SigEnc) (bits : Nat) (tt : List Nat) (t0 : Nat)
    (cs : List (Nat × States × List Nat))
    (hs : signals.toList[i]? = some s) (hb : bits ≠ 1) (hdata : s.dataBytes = encStream cs) (hne : cs ≠ [])
    (hcs : ∀ c ∈ cs, c.2.2.length = divCeil bits c.2.1.bib ∧ ((c.1 <<< 2) ||| c.2.1.toNat) < 2 ^ 32)
    (hlen : divCeil (encStream cs).length 32 < 2 ^ 32) :
    let r := finishSignals c signals
    let b : Block := { startTime := t0, timeTable := tt, offsets := r.2.1, data := r.2.2 }
    loadSignal { blocks := [b] } i (.bitvec bits) =
      some { maxStates := s.maxStates,
             times := (replayFixed bits s.maxStates cs 0 {}).2.timesRev.reverse,
             entries := (replayFixed bits s.maxStates cs 0 {}).2.entriesRev.reverse } :=
  single_block_load c signals i s bits tt t0 cs hs hb hdata hne hcs hlen

/-- **the VCD vector path is transparent within a block**: a fresh multi-bit signal that receives any number of VCD value tokens
at non-decreasing time indices (below 2^30) is, after `finish_block` — whatever other signals share the block, whatever the
compression decision — loaded back as one entry per call at the call's time index, each the aligned packing of exactly `bits`
symbols of that call (immediate repetitions dropped). Composition of `C04_encoder…`, `C04_block_slice`, `C04_meta_*`,
`C04_stream_fixed`; the symbols behind an entry are `C04_entry_roundtrip`. -/
theorem C04_vcd_block_roundtrip (c : Codec) (signals : Array SigEnc) (i : Nat) (s : SigEnc) (bits : Nat) (tt : List Nat) (t0 : Nat)
    (calls : List (Nat × List Nat)) (hb : bits ≠ 1) (hne : calls ≠ [])
    (hw : vcdWrites { tpe := .bitvec bits } calls = some s) (hs : signals.toList[i]? = some s)
    (hsorted : (calls.map (·.1)).Pairwise (· ≤ ·)) (hsmall : ∀ t ∈ calls.map (·.1), t < 2 ^ 30)
    (hlen : divCeil s.dataBytes.length 32 < 2 ^ 32) :
    ∃ cs : List (Nat × States × List Nat),
      (absolutise 0 cs).map (·.1) = calls.map (·.1) ∧
      (∀ x ∈ cs, ∃ nums, nums.length = bits ∧ (∀ v ∈ nums, v < 9) ∧ x.2.2 = writeNState x.2.1 nums none) ∧
      (let r := finishSignals c signals
       let b : Block := { startTime := t0, timeTable := tt, offsets := r.2.1, data := r.2.2 }
       loadSignal { blocks := [b] } i (.bitvec bits) =
         some { maxStates := s.maxStates,
                times := (replayAbs bits s.maxStates (absolutise 0 cs) {}).timesRev.reverse,
                entries := (replayAbs bits s.maxStates (absolutise 0 cs) {}).entriesRev.reverse }) :=
  vcd_block_roundtrip c signals i s bits tt t0 calls hb hne hw hs hsorted hsmall hlen

/-- **values come back**: every entry the loader builds for a signal written through the VCD vector path decodes to the kind and the
`bits` symbols of the token it was written from (left extension included), whatever the widest kind of the signal -/
theorem C04_vcd_block_values (bits : Nat) (hb2 : 2 ≤ bits) (calls : List (Nat × List Nat)) (s : SigEnc)
    (hw : vcdWrites { tpe := .bitvec bits } calls = some s) :
    ∃ cs : List (Nat × States × List Nat),
      s.dataBytes = encStream cs ∧ cs.map (·.1) = deltasFrom 0 (calls.map (·.1)) ∧
      ∀ x ∈ cs, ∃ nums d, nums.length = bits ∧ x.2.2 = writeNState x.2.1 nums none ∧
        decodeEntry s.maxStates bits (getLenAndMeta s.maxStates bits).2 (alignEntry s.maxStates x.2.1 bits x.2.2) = some (x.2.1, d) ∧
        toSyms x.2.1 d bits = nums :=
  vcd_block_values bits hb2 calls s hw

/-- **the VCD scalar path is transparent within a block**: any sequence of scalar value tokens (also written as `b1` / `b0b1`) at
non-decreasing time indices → finish_block → load gives one compact entry per token at its time index; the symbol behind a
compact entry is `C04_one_bit_roundtrip` -/
theorem C04_vcd_onebit_block_roundtrip (c : Codec) (signals : Array SigEnc) (i : Nat) (s : SigEnc) (tt : List Nat) (t0 : Nat)
    (calls : List (Nat × List Nat)) (hne : calls ≠ [])
    (hw : vcdWrites { tpe := .bitvec 1 } calls = some s) (hs : signals.toList[i]? = some s)
    (hsorted : (calls.map (·.1)).Pairwise (· ≤ ·)) (hsmall : ∀ t ∈ calls.map (·.1), t < 2 ^ 27)
    (hlen : divCeil s.dataBytes.length 32 < 2 ^ 32) :
    ∃ cs : List (Nat × Nat),
      cs.map (·.1) = deltasFrom 0 (calls.map (·.1)) ∧ (∀ x ∈ cs, x.2 < 9) ∧
      (let r := finishSignals c signals
       let b : Block := { startTime := t0, timeTable := tt, offsets := r.2.1, data := r.2.2 }
       loadSignal { blocks := [b] } i (.bitvec 1) =
         some { maxStates := s.maxStates,
                times := (replayOneBit cs 0 {}).2.timesRev.reverse,
                entries := (replayOneBit cs 0 {}).2.entriesRev.reverse }) :=
  vcd_onebit_block_roundtrip c signals i s tt t0 calls hne hw hs hsorted hsmall hlen

/-- the same for the pre-encoded path (`raw_value_change`, used by the GHW loader): one entry per call at the call's time index;
`compress_template` is the same function as the slicing core `repack` (`compressTemplate_eq_repack`), so the symbols behind such
an entry are those of C13_minimal_repack -/
theorem C04_raw_block_roundtrip (c : Codec) (signals : Array SigEnc) (i : Nat) (s : SigEnc) (bits : Nat) (tt : List Nat) (t0 : Nat)
    (calls : List (Nat × List Nat × States)) (hb : bits ≠ 1) (hne : calls ≠ [])
    (hw : rawWrites { tpe := .bitvec bits } calls = some s) (hs : signals.toList[i]? = some s)
    (hsorted : (calls.map (·.1)).Pairwise (· ≤ ·)) (hsmall : ∀ t ∈ calls.map (·.1), t < 2 ^ 30)
    (hlen : divCeil s.dataBytes.length 32 < 2 ^ 32) :
    ∃ cs : List (Nat × States × List Nat),
      (absolutise 0 cs).map (·.1) = calls.map (·.1) ∧
      (let r := finishSignals c signals
       let b : Block := { startTime := t0, timeTable := tt, offsets := r.2.1, data := r.2.2 }
       loadSignal { blocks := [b] } i (.bitvec bits) =
         some { maxStates := s.maxStates,
                times := (replayAbs bits s.maxStates (absolutise 0 cs) {}).timesRev.reverse,
                entries := (replayAbs bits s.maxStates (absolutise 0 cs) {}).entriesRev.reverse }) :=
  raw_block_roundtrip c signals i s bits tt t0 calls hb hne hw hs hsorted hsmall hlen

theorem C04_compress_is_repack (inS outS : States) (value : List Nat) (bits : Nat) (hbits : bits ≤ value.length * inS.bib) :
    compressTemplate value inS outS bits = Wellen.Slice.repack inS outS value 0 bits 0 :=
  Wellen.Slice.compressTemplate_eq_repack inS outS value bits hbits

/-- **segmentation does not alter the data**: for ANY number of blocks (each finished from its own set of encoders and with its own
compression decisions; the signal may be absent from some blocks), a multi-bit signal is loaded as the concatenation of the
changes recorded in each block — the time indices of block k shifted by the lengths of the earlier blocks' time tables, all
entries aligned to the widest kind over the blocks (`SigInBlock`: the signal's encoder in that block recorded the chunk stream
of the changes `p.2.2`) -/
theorem C04_multi_block_load (c : Codec) (bits : Nat) (hb : bits ≠ 1) (i : Nat) (l : List (BlockDesc × SigEnc × List Change))
    (h : ∀ p ∈ l, SigInBlock bits i p) :
    loadSignal { blocks := l.map fun p => mkBlock c p.1 } i (.bitvec bits) =
      some { maxStates := joinedStates c l,
             times := (replayBlocks bits (joinedStates c l) l 0 {}).timesRev.reverse,
             entries := (replayBlocks bits (joinedStates c l) l 0 {}).entriesRev.reverse } :=
  multi_block_load c bits hb i l h

/-- reals and strings within one block, end to end -/
theorem C04_single_block_load_reals (c : Codec) (signals : Array SigEnc) (i : Nat) (s : SigEnc) (tt : List Nat) (t0 : Nat)
    (cs : List (Nat × List Nat)) (hs : signals.toList[i]? = some s) (hdata : s.dataBytes = encReals cs) (hne : cs ≠ [])
    (hcs : ∀ c ∈ cs, c.2.length = 8 ∧ c.1 < 2 ^ 32) (hlen : divCeil (encReals cs).length 32 < 2 ^ 32) :
    let r := finishSignals c signals
    let b : Block := { startTime := t0, timeTable := tt, offsets := r.2.1, data := r.2.2 }
    loadSignal { blocks := [b] } i .real =
      some { maxStates := s.maxStates, times := (replayPlain cs 0 {}).2.timesRev.reverse,
             entries := (replayPlain cs 0 {}).2.entriesRev.reverse } :=
  single_block_load_reals c signals i s tt t0 cs hs hdata hne hcs hlen

theorem C04_single_block_load_strings (c : Codec) (signals : Array SigEnc) (i : Nat) (s : SigEnc) (tt : List Nat) (t0 : Nat)
    (cs : List (Nat × List Nat)) (hs : signals.toList[i]? = some s) (hdata : s.dataBytes = encStrings cs) (hne : cs ≠ [])
    (hcs : ∀ c ∈ cs, c.1 < 2 ^ 32) (hlen : divCeil (encStrings cs).length 32 < 2 ^ 32) :
    let r := finishSignals c signals
    let b : Block := { startTime := t0, timeTable := tt, offsets := r.2.1, data := r.2.2 }
    loadSignal { blocks := [b] } i .string =
      some { maxStates := s.maxStates, times := (replayPlain cs 0 {}).2.timesRev.reverse,
             entries := (replayPlain cs 0 {}).2.entriesRev.reverse } :=
  single_block_load_strings c signals i s tt t0 cs hs hdata hne hcs hlen

/-- the stream the theorems are about is what the encoder appends: `add_n_bit_change` on a multi-bit signal -/
theorem C04_encoder_chunk (ti : Nat) (value : List Nat) (st : States) (s s' : SigEnc) (bits : Nat)
    (ht : s.tpe = .bitvec bits) (hb : bits ≠ 1) (h : addNBit ti value st s = some s') :
    ∃ loc body, s'.chunks = encChange (ti - s.prevTimeIdx) loc body :: s.chunks := by
  unfold addNBit at h
  simp only [ht, hb, ↓reduceIte] at h
  split at h
  · cases h
  · cases h; exact ⟨_, _, rfl⟩

/-- **the store refines the specification** (VCD vector signals, two or more bits): whenever the specification denotes a waveform
`(tt, sigs)` for a history and the store accepts it, the finished store has exactly the time table `tt`, and loading signal `i`
yields exactly the change list `sigs[i]` — the time index of every change, and for every change an entry that decodes to the
smallest sufficient kind and the symbols of its value. For ANY history (repeated / backwards timestamps, several changes per
step, redundant writes, other signals of any type in between), ANY block size (`c.blockMax`: roll-over at every multiple) and ANY
compression decision (`c.wantCompress`). `hsmall`: no block beyond 2^36 bytes (32-bit compressed-length field). -/
theorem C04_store_refines_spec (c : Codec) (bits i : Nat) (hb2 : 2 ≤ bits) (hbm : 1 ≤ c.blockMax) (hbmax : c.blockMax ≤ 2 ^ 30)
    (tps : List SigType) (hti : tps[i]? = some (.bitvec bits)) (ops : List Spec.Op)
    (hraw : ∀ op ∈ ops, ∀ st b, op ≠ .raw i st b)
    (e : Enc) (he : Spec.runOps c (newEnc tps) ops = some e)
    (tt : List Nat) (sigs : List (List (Nat × Spec.Value))) (hrun : Spec.run tps ops = some (tt, sigs))
    (hsmall : ∀ b ∈ (finish c e).1.blocks, b.data.length < 2 ^ 36) :
    (finish c e).2 = tt ∧
    ∃ sigS chg, sigs[i]? = some chg ∧
      loadSignal (finish c e).1 i (.bitvec bits) =
        some { maxStates := sigS, times := chg.map (·.1), entries := chg.map (entryOf bits sigS) } ∧
      ∀ x ∈ chg, ∃ syms d, x.2 = .bits syms ∧
        decodeEntry sigS bits (getLenAndMeta sigS bits).2 (entryOf bits sigS x) = some (Spec.kindOf syms, d) ∧
        toSyms (Spec.kindOf syms) d bits = syms := by
  obtain ⟨s, hs, htt, hsigs⟩ := run_fold tps ops tt sigs hrun
  constructor
  · -- time table: both are the strictly increasing prefix maxima of the timestamps
    obtain ⟨hi0, ht0⟩ := Spec.newEnc_inv tps
    obtain ⟨hi, ht⟩ := Spec.runOps_table c ops (newEnc tps) e [] hi0 (by rw [ht0]; rfl) he
    rw [Spec.finish_table c e hi, ht, htt]
    have := spec_table tps.toArray ops (specInit tps) s [] rfl hs
    rw [this]
  · obtain ⟨sigS, hload, hwf⟩ := store_load_vector_canon c bits i hb2 hbm hbmax tps hti ops hraw e he s hs hsmall
    have hext := Spec.fold_ext tps.toArray ops (specInit tps) s rfl hs
    have hsize : s.changesRev.size = tps.length := by rw [hext.size]; simp [specInit]
    have hilt : i < tps.length := by
      have := List.getElem?_eq_some_iff.mp hti
      exact this.1
    have hget : s.changesRev.getD i [] = s.changesRev.toList[i]'(by simpa [hsize] using hilt) := by
      simp [Array.getD_eq_getD_getElem?, hsize, hilt]
    refine ⟨sigS, Spec.canon (s.changesRev.getD i []).reverse, ?_, hload, ?_⟩
    · rw [hsigs, List.getElem?_map, hget]
      simp [hsize, hilt]
    · intro x hx
      have hx' := (Spec.canon_sublist _).subset hx
      obtain ⟨syms, d, h1, h2, h3⟩ := entryOf_decodes bits hb2 sigS x.1 x.2 (hwf x hx')
      exact ⟨syms, d, h1, h2, h3⟩

/-- **the store refines the specification — every signal type, both write paths, any number of appended encoders** (vectors,
one-bit signals, reals, strings; VCD tokens, `real` operations and pre-encoded GHW-style writes `add_n_bit_change`; `split`
operations: a new encoder per segment, joined by `Encoder::append` as in a multi-threaded load): loading signal `i` from the
finished store yields exactly `Spec.run`'s change list for it: the time index of every change and, per change, the entry of
its value (`C04_entries_of_values`: the string's bytes, the double's 8 bytes, the one-bit code byte, the aligned packed symbols
in their smallest kind — `checkMinState_kindOf` for pre-encoded values). Hypotheses: parsed reals are 8 bytes, no block beyond
2^36 bytes, block size between 1 and 2^28 time steps. -/
theorem C04_store_refines_spec_all (c : Codec) (i : Nat) (hbm : 1 ≤ c.blockMax) (hbmax : c.blockMax ≤ 2 ^ 28)
    (tps : List SigType) (tpe : SigType) (hw : ∀ b, tpe = .bitvec b → 1 ≤ b) (hti : tps[i]? = some tpe) (ops : List Spec.Op)
    (hreal : ∀ op ∈ ops, ∀ j v r, op = .vcd j v (some r) → r.length = 8)
    (e : Enc) (he : Spec.runSegs c tps ops = some e)
    (tt : List Nat) (sigs : List (List (Nat × Spec.Value))) (hrun : Spec.run tps ops = some (tt, sigs))
    (hsmall : ∀ b ∈ (finish c e).1.blocks, b.data.length < 2 ^ 36) :
    ∃ sigS chg, sigs[i]? = some chg ∧
      loadSignal (finish c e).1 i tpe =
        some { maxStates := sigS, times := chg.map (·.1),
               entries := chg.map (fun x => (kindFor tpe hw).entry sigS (encVK (kindFor tpe hw) x)) } ∧
      ∀ x ∈ chg, WFK (kindFor tpe hw) sigS x.2 := by
  obtain ⟨s, hs, htt, hsigs⟩ := run_fold tps ops tt sigs hrun
  have hti' : tps[i]? = some (kindFor tpe hw).tpe := by rw [kindFor_tpe]; exact hti
  obtain ⟨sigS, hload, hwf⟩ := store_load_canonK (kindFor tpe hw) (kindFor_ok tpe hw) c i hbm hbmax tps hti' ops hreal e he s hs hsmall
  rw [kindFor_tpe] at hload
  have hext := Spec.fold_ext tps.toArray ops (specInit tps) s rfl hs
  have hsize : s.changesRev.size = tps.length := by rw [hext.size]; simp [specInit]
  have hilt : i < tps.length := (List.getElem?_eq_some_iff.mp hti).1
  have hget : s.changesRev.getD i [] = s.changesRev.toList[i]'(by simpa [hsize] using hilt) := by
    simp [Array.getD_eq_getD_getElem?, hsize, hilt]
  refine ⟨sigS, Spec.canon (s.changesRev.getD i []).reverse, ?_, hload, ?_⟩
  · rw [hsigs, List.getElem?_map, hget]
    simp [hsize, hilt]
  · intro x hx
    exact hwf x ((Spec.canon_sublist _).subset hx)

/-- a history without splits is run by one encoder -/
theorem C04_runSegs_single (c : Codec) (tps : List SigType) (ops : List Spec.Op) (e : Enc)
    (h : Spec.runOps c (newEnc tps) ops = some e) : Spec.runSegs c tps ops = some e := by
  have hns : ∀ (ops : List Spec.Op) (e0 e : Enc), Spec.runOps c e0 ops = some e → Spec.splitOps ops = [ops] := by
    intro ops
    induction ops with
    | nil => intro _ _ _; rfl
    | cons o r ih =>
      intro e0 e h
      simp only [Spec.runOps] at h
      cases hs : Spec.stepOp c e0 o with
      | none => rw [hs] at h; cases h
      | some e1 =>
        rw [hs] at h
        have := ih e1 e h
        cases o with
        | split => simp [Spec.stepOp] at hs
        | time t => simp [Spec.splitOps, this]
        | vcd a b d => simp [Spec.splitOps, this]
        | raw a b d => simp [Spec.splitOps, this]
        | real a b => simp [Spec.splitOps, this]
  unfold Spec.runSegs
  rw [hns ops _ e h]
  simp [h, appendAll]

/-- what the entries are, per signal type -/
theorem C04_entries_of_values (sigS : States) (k : Nat) :
    (∀ b, strKind.entry sigS (encVK strKind (k, .str b)) = b) ∧
    (∀ le, realKind.entry sigS (encVK realKind (k, .real le)) = le) ∧
    (∀ b, bitKind.entry sigS (encVK bitKind (k, .bits [b])) = oneBitEntry b) ∧
    (∀ bits hb2 syms, (vecKind bits hb2).entry sigS (encVK (vecKind bits hb2) (k, .bits syms)) =
      alignEntry sigS (Spec.kindOf syms) bits (writeNState (Spec.kindOf syms) syms none)) :=
  ⟨fun _ => rfl, fun _ => rfl, fun _ => rfl, fun _ _ _ => rfl⟩

/-! non-vacuity of `C04_store_refines_spec`: a history with a repeated and a backwards timestamp, a redundant write, a shortened
token, a second signal of another type and a block roll-over (block size 2) is accepted by the store and by the specification -/
def nvC : Codec := { wantCompress := fun _ => false, blockMax := 2 }
def nvOps : List Spec.Op :=
  [.time 5, .vcd 0 [98, 49, 48, 49] none, .real 1 [0, 0, 0, 0, 0, 0, 0, 0], .time 5, .vcd 0 [98, 120, 49] none, .time 3,
   .vcd 0 [98, 49, 49, 49] none, .time 9, .vcd 0 [98, 120, 49] none, .time 12, .vcd 0 [98, 49] none, .vcd 0 [66, 48, 48, 49] none]
example : (Spec.runOps nvC (newEnc [.bitvec 3, .real]) nvOps).isSome = true := by decide +kernel
example : Spec.run [.bitvec 3, .real] nvOps =
    some ([5, 9, 12], [[(0, .bits [1, 0, 1]), (0, .bits [2, 2, 1]), (2, .bits [0, 0, 1])], [(0, .real [0, 0, 0, 0, 0, 0, 0, 0])]]) := by
  decide +kernel
example : ((Spec.runOps nvC (newEnc [.bitvec 3, .real]) nvOps).map fun e =>
    ((finish nvC e).1.blocks.map (·.data.length), (finish nvC e).2)) = some ([17, 5], [5, 9, 12]) := by decide +kernel

/-! non-vacuity -/
example : ∀ c ∈ [((0 : Nat), States.two, [(5 : Nat)]), (3, States.four, [10])],
    c.2.2.length = divCeil 4 c.2.1.bib ∧ ((c.1 <<< 2) ||| c.2.1.toNat) < 2 ^ 32 := by decide

example : ∃ d, decodeEntry .nine 6 (getLenAndMeta .nine 6).2
    (alignEntry .nine .four 6 (writeNState .four [1, 0, 2, 3, 0, 1] none)) = some (.four, d) ∧
    toSyms .four d 6 = [1, 0, 2, 3, 0, 1] :=
  C04_entry_roundtrip .nine .four [1, 0, 2, 3, 0, 1] (by decide) (by decide) (by decide)

/-- **how a recording was divided among parser threads does not matter**: two divisions (`split` marks at different places, or
none at all) of the same operations denote the same time table and the same change list for every signal — and by
`C04_store_refines_spec_all` the store loads exactly what is denoted, for each of them -/
theorem C04_division_irrelevant (tps : List SigType) (ops1 ops2 : List Spec.Op)
    (hsame : Spec.dropSplits ops1 = Spec.dropSplits ops2)
    (r1 r2 : List Nat × List (List (Nat × Spec.Value)))
    (h1 : Spec.run tps ops1 = some r1) (h2 : Spec.run tps ops2 = some r2) : r1 = r2 := by
  have e1 := Spec.run_dropSplits tps ops1 r1 h1
  have e2 := Spec.run_dropSplits tps ops2 r2 h2
  rw [hsame, e2] at e1
  exact (Option.some.inj e1).symm

/-- non-vacuity: the same four operations, undivided and divided before the second time step -/
example : Spec.run [.bitvec 1] [.time 0, .vcd 0 [49] none, .time 5, .vcd 0 [48] none] =
    Spec.run [.bitvec 1] [.time 0, .vcd 0 [49] none, .split, .time 5, .vcd 0 [48] none] := by decide


end Wellen.Store
