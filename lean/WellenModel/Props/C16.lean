import WellenModel.Proofs.Detect
/-!
# C16 — format detection is total and correct

Model: `Model/Detect.lean` — `is_vcd`, `fst_reader::is_fst_file` (dependency, modelled from its
source, with explicit fuel), `is_ghw`, combined as `detect_file_format` does. The functions are pure
functions of the byte string, so "leaves the input positioned at its start" is structural in the
model; the real rewind is observed by the differential run with a position-tracking reader.
* totality: `isVcd`, `isGhw` are total functions (no panic after fix F8: `C16_unknown_command_rejected`);
* `C16_vcd_accepted`: white space, `$`, one of the nine command words, white space, … `$end` is VCD;
* `C16_whitespace_unknown`: white-space-only data is classified Unknown;
* `C16_fst_walk_terminates_partial`: the FST block walk terminates within len+1 steps when every
  section length is in [8, 2^63). NOT provable in general: finding F10 (`C16_fst_walk_hangs`), and
  the empty input is classified FST (finding F9, `C16_empty_is_fst`).
-/
namespace Wellen.Detect

theorem C16_unknown_command_rejected (ws tok rest : List Nat) (w : Nat) (hws : ∀ b ∈ ws, isWs b = true)
    (htok : ∀ b ∈ tok, isWs b = false) (hw : isWs w = true) (hcmd : cmdWords.contains tok = false) :
    isVcd (ws ++ 36 :: (tok ++ w :: rest)) = false :=
  isVcd_unknown_cmd ws tok rest w hws htok hw hcmd

theorem C16_vcd_accepted (ws tok rest : List Nat) (w : Nat) (hws : ∀ b ∈ ws, isWs b = true)
    (htok : ∀ b ∈ tok, isWs b = false) (hw : isWs w = true) (hcmd : cmdWords.contains tok = true)
    (hend : findEnd (dropLeadingWs rest) 0 = true) :
    detect (ws ++ 36 :: (tok ++ w :: rest)) = .vcd := by
  simp [detect, isVcd_accepts ws tok rest w hws htok hw hcmd hend]

theorem C16_whitespace_unknown (bs : List Nat) (hne : bs ≠ []) (h : ∀ b ∈ bs, isWs b = true) (hb : ∀ b ∈ bs, b < 256) :
    detect bs = .unknown := by
  cases bs with
  | nil => exact absurd rfl hne
  | cons b r =>
    have hv : isVcd (b :: r) = false := by simp [isVcd, skipWs_allWs (b :: r) h]
    have hblock := (ws_not_block ⟨b, hb b (by simp)⟩ (h b (by simp))).1
    have hf : isFst (b :: r) = .no := by
      simp only [isFst, List.length_cons, isFstWalk]
      simp [hblock]
    have hg : isGhw (b :: r) = false := by
      have h71 := (ws_not_block ⟨b, hb b (by simp)⟩ (h b (by simp))).2.2
      simp only [isGhw]
      split
      · rfl
      · have : ((b :: r).take 9 == ghwMagic) = false := by
          simp [ghwMagic]
          intro hb71; exact absurd hb71 h71
        simp only [this, Bool.false_and]
    simp [detect, hv, hf, hg]

theorem C16_fst_walk_terminates_partial (bs : List Nat)
    (hfw : ∀ p, p < bs.length → u64be ((bs.drop (p + 1)).take 8) < 2 ^ 63 ∧ 8 ≤ u64be ((bs.drop (p + 1)).take 8)) :
    isFst bs ≠ .hang :=
  isFstWalk_forward bs (bs.length + 2) 0 (by omega) (by omega) hfw

/-- finding F10: an 18-byte input on which the walk never ends (block 2 seeks back onto block 1) -/
theorem C16_fst_walk_hangs :
    isFst [255, 0, 0, 0, 0, 0, 0, 0, 8, 255, 255, 255, 255, 255, 255, 255, 255, 246] = .hang := by decide

/-- finding F9: the empty input is classified as FST -/
theorem C16_empty_is_fst : detect [] = .fst := by decide

/-- non-vacuity of the acceptance theorem: ` $date x $end` -/
example : detect [32, 36, 100, 97, 116, 101, 32, 120, 32, 36, 101, 110, 100] = .vcd := by decide

end Wellen.Detect
