import WellenModel.Proofs.Fst
import WellenModel.Proofs.Canon
import WellenModel.Proofs.FstRefine
import WellenModel.Model.FstFile
/-!
# C10 — FST files load faithfully (wellen's share: what is done with the reader's callbacks)

Model: `Model/Fst.lean` (SignalWriter, expand_entries after fix F15). The container (blocks,
compression, time chain, hierarchy entries) is parsed by the `fst-reader` dependency and is not
modelled; it is exercised by corpus files only.
* `C10_writer_entry`: the bytes appended for a change are the loader's entry layout, so they decode
  to the written symbols for every width and kind (C04 entry round trip);
* `C10_expand_is_rewrite`: widening (2→4→9 states) turns every collected entry into exactly the entry
  that would have been written under the wider kind: the stored data does not depend on the order
  in which 2-, 4- and 9-state values first appear;
* `C10_writer_refines_canon` (`Proofs/FstRefine.lean`): for EVERY sequence of callbacks of a bit-vector signal the writer ends
  with exactly the changes `canon` keeps (immediate repetitions dropped, nothing else), each stored as the loader's entry of
  its symbols under the widest kind that occurred — the stored data does not depend on the order in which 2-, 4- and 9-state
  values first appear, nor on how the callbacks are distributed over blocks (only their sequence matters);
* `C10_expand_for_every_value`: `expand_entries` is the identity on meaning for every value (no bound on the first byte).
-/
namespace Wellen.Fst
open Wellen.Bits Wellen.Store

theorem C10_writer_entry (sigS loc : States) (syms : List Nat)
    (hbits : 2 ≤ syms.length) (hv : ∀ v ∈ syms, v < 2 ^ loc.bits) (hle : loc.toNat ≤ sigS.toNat) :
    ∃ d, decodeEntry sigS syms.length (getLenAndMeta sigS syms.length).2
           (alignEntry sigS loc syms.length (writeNState loc syms none)) = some (loc, d) ∧
         toSyms loc d syms.length = syms :=
  entry_roundtrip sigS loc syms hbits hv hle

theorem C10_expand_is_rewrite (frm to loc : States) (bits h : Nat) (t : List Nat)
    (hle1 : loc.toNat ≤ frm.toNat) (hle2 : frm.toNat ≤ to.toNat) (hb : 1 ≤ bits)
    (hl : (h :: t).length = (getLenAndMeta loc bits).1) (hh : h < 64) :
    expandEntry frm to bits (alignEntry frm loc bits (h :: t)) = alignEntry to loc bits (h :: t) :=
  expandEntry_align frm to loc bits h t hle1 hle2 hb hl hh

theorem C10_writer_uses_entry_layout (sigS loc : States) (bits : Nat) (nums : List Nat)
    (hne : writeNState loc nums none ≠ []) :
    (let (len, hasMeta) := getLenAndMeta sigS bits
     let (llen, lmeta) := getLenAndMeta loc bits
     let md := loc.toNat <<< 6
     if llen = len ∧ lmeta = hasMeta then
       (if hasMeta then md :: writeNState loc nums none else writeNState loc nums (some md))
     else md :: (zeros (if hasMeta then len - llen else len - llen - 1) ++ writeNState loc nums none)) =
    alignEntry sigS loc bits (writeNState loc nums none) :=
  writer_entry_eq_align sigS loc bits nums hne

/-- non-vacuity: 4-bit `0101` (two-state) widened to nine-state equals the nine-state layout of `0101` -/
example : expandEntry .two .nine 4 (alignEntry .two .two 4 (writeNState .two [0, 1, 0, 1] none)) =
    alignEntry .nine .two 4 (writeNState .two [0, 1, 0, 1] none) := by decide

/-- **the reported timescale denotes the file's tick**: for every exponent an FST header may carry (-15 .. 0),
`convert_timescale` does not panic and factor x unit = 10^exponent s, with factor 1, 10 or 100 -/
theorem C10_timescale (e : Int) (h1 : -15 ≤ e) (h2 : e ≤ 0) :
    ∃ f u, convertTimescale e = some (f, u) ∧ (f = 1 ∨ f = 10 ∨ f = 100) ∧ (u = 0 ∨ u = -3 ∨ u = -6 ∨ u = -9 ∨ u = -12 ∨ u = -15) ∧
      (f : Int) * 10 ^ (u + 15).toNat = 10 ^ (e + 15).toNat := by
  have : e = -15 ∨ e = -14 ∨ e = -13 ∨ e = -12 ∨ e = -11 ∨ e = -10 ∨ e = -9 ∨ e = -8 ∨ e = -7 ∨ e = -6 ∨ e = -5 ∨
      e = -4 ∨ e = -3 ∨ e = -2 ∨ e = -1 ∨ e = 0 := by omega
  rcases this with rfl | rfl | rfl | rfl | rfl | rfl | rfl | rfl | rfl | rfl | rfl | rfl | rfl | rfl | rfl | rfl <;>
    exact ⟨_, _, rfl, by decide, by decide, by decide⟩

/-- outside that range the code panics (exponent below -15) — finding-free only because FST writers never emit it -/
example : convertTimescale (-16) = none ∧ convertTimescale (-5) = some (10, -6) := by decide

/-- **time index of a callback**: the forward-only cursor of `load_signals` (model `cursorAdvance`) reports a callback of
time `t` at the FIRST table entry, at or after the cursor, that is not below `t` — for every table, in particular one in
which a later value-change block repeats the last time of its predecessor: changes under the repeated entry join the
first occurrence, and later changes are counted against the file's own chain (what `time_table()` returns) -/
theorem C10_cursor_first (tt : List Nat) (t fuel idx : Nat) (hf : tt.length < idx + fuel)
    (hex : ∃ j, idx ≤ j ∧ ∃ h : j < tt.length, t ≤ tt[j]) :
    ∃ i, cursorAdvance tt idx t fuel = some i ∧ idx ≤ i ∧ (∃ h : i < tt.length, t ≤ tt[i]) ∧
      ∀ k, idx ≤ k → k < i → ∃ h : k < tt.length, tt[k] < t :=
  cursor_first tt t fuel idx hf hex

/-- non-vacuity: the table `0,10,10,20` (time 10 repeated at a block boundary) -/
example : cursorAdvance [0, 10, 10, 20] 1 10 5 = some 1 ∧ cursorAdvance [0, 10, 10, 20] 1 20 5 = some 3 := by decide

/-- **`expand_entries` never alters a value**: the entry of any symbols `nums` (width ≥ 2) written under the maximum `frm`,
once widened to `to`, is byte for byte the entry written under `to` -/
theorem C10_expand_for_every_value (frm to loc : States) (bits : Nat) (nums : List Nat)
    (hlen : nums.length = bits) (hv : ∀ v ∈ nums, v < 2 ^ loc.bits)
    (hle1 : loc.toNat ≤ frm.toNat) (hle2 : frm.toNat ≤ to.toNat) (hb : 2 ≤ bits) :
    expandEntry frm to bits (alignEntry frm loc bits (writeNState loc nums none)) =
      alignEntry to loc bits (writeNState loc nums none) :=
  expandEntry_align_gen frm to loc bits nums hlen hv hle1 hle2 hb

/-- **the FST writer refines the canonical change list** — for every sequence of callbacks `(time index, value characters)` of
a bit-vector signal of width ≥ 2 (every order of 2-, 4- and 9-state values, any repetitions): `SignalWriter::add_change` with
widening, entry layout and byte-wise de-duplication ends with exactly the changes the specification's `canon` keeps, each
stored as the loader's entry (`valueEntry`) of its symbols under the widest kind that occurred -/
theorem C10_writer_refines_canon (bits : Nat) (hb : 2 ≤ bits) (cbs : List (Nat × List Nat))
    (hv : ∀ cb ∈ cbs, ∃ nums, charsToNums cb.2 = some nums ∧ nums.length = bits) :
    ∃ (sigS : States) (chg : List (Nat × List Nat)), runWriter (.bitvec bits) (cbs.map fun c => (c.1, WValue.chars c.2)) =
        some { maxStates := sigS, times := chg.map (·.1), entries := chg.map (fun x => valueEntry sigS bits x.2) } ∧
      (chg.map fun x => (x.1, Spec.Value.bits x.2)) = Spec.canon (cbs.map fun c => (c.1, Spec.Value.bits (symsOf c.2))) ∧
      (∀ cb ∈ cbs, (Spec.kindOf (symsOf cb.2)).toNat ≤ sigS.toNat) :=
  writer_refines_canon bits hb cbs hv

/-- **FST sources are canonical too** (C06 for the FST loader): what `SignalWriter` keeps for a bit-vector signal has no two
consecutive changes with the same value, every value in its smallest sufficient kind under a common maximum, and every stored
entry decodes (loader layout) to exactly that kind and those symbols -/
theorem C10_writer_canonical (bits : Nat) (hb : 2 ≤ bits) (cbs : List (Nat × List Nat))
    (hv : ∀ cb ∈ cbs, ∃ nums, charsToNums cb.2 = some nums ∧ nums.length = bits) :
    ∃ (sigS : States) (chg : List (Nat × List Nat)), runWriter (.bitvec bits) (cbs.map fun c => (c.1, WValue.chars c.2)) =
        some { maxStates := sigS, times := chg.map (·.1), entries := chg.map (fun x => valueEntry sigS bits x.2) } ∧
      Spec.noAdjRepeat (chg.map fun x => (x.1, Spec.Value.bits x.2)) := by
  obtain ⟨sigS, chg, h1, h2, _⟩ := C10_writer_refines_canon bits hb cbs hv
  exact ⟨sigS, chg, h1, by rw [h2]; exact Spec.canon_noAdjRepeat _⟩


/-- … and the same for string and real signals: the writer keeps exactly `canon` of the callback sequence, values stored
verbatim (strings: the bytes delivered; reals: the 8 bytes) -/
theorem C10_writer_strings_reals (cbs : List (Nat × List Nat)) :
    (∃ (chg : List (Nat × List Nat)), runWriter .string (cbs.map fun c => (c.1, WValue.chars c.2)) =
        some { maxStates := .two, times := chg.map (·.1), entries := chg.map (·.2) } ∧
      (chg.map fun x => (x.1, Spec.Value.str x.2)) = Spec.canon (cbs.map fun c => (c.1, Spec.Value.str c.2))) ∧
    (∃ (chg : List (Nat × List Nat)), runWriter .real (cbs.map fun c => (c.1, WValue.real c.2)) =
        some { maxStates := .two, times := chg.map (·.1), entries := chg.map (·.2) } ∧
      (chg.map fun x => (x.1, Spec.Value.real x.2)) = Spec.canon (cbs.map fun c => (c.1, Spec.Value.real c.2))) :=
  ⟨writer_strings_refine_canon cbs, writer_reals_refine_canon cbs⟩

/-- non-vacuity: `01`, `0x` (widening to four states), `0x` again (dropped), `h1` (widening to nine states) -/
example : ∃ l, runWriter (.bitvec 2) [(0, .chars [48, 49]), (1, .chars [48, 120]), (2, .chars [48, 120]), (2, .chars [104, 49])] = some l ∧
    l.times = [0, 1, 2] ∧ l.maxStates = .nine := ⟨_, rfl, rfl, rfl⟩

end Wellen.Fst

/-! ### files whose value-change blocks repeat boundary times -/
namespace Wellen.FstFile
open Wellen.GhwSpec

theorem map_const_replicate {α β : Type} (l : List α) (t : β) : l.map (fun _ => t) = List.replicate l.length t := by
  induction l with
  | nil => rfl
  | cons a r ih => simp [List.replicate_succ, ih]

theorem filter_fst_length (dups : List (Nat × Bool)) (i : Nat) :
    (dups.filter fun d => d.1 = i).length = ((dups.map (·.1)).filter (· = i)).length := by
  induction dups with
  | nil => rfl
  | cons d r ih =>
    simp only [List.filter_cons, List.map_cons]
    by_cases h : d.1 = i <;> simp [h, ih]

/-- the file-level model's time table for a file whose blocks repeat boundary times is the specification's: the file's own
chain, every repeated position once more per repetition -/
theorem C10_dup_chain (times : List Nat) (dups : List (Nat × Bool)) :
    chainWithDups times dups = dupChain times (dups.map (·.1)) := by
  unfold chainWithDups dupChain
  congr 1
  funext i
  simp only [map_const_replicate, filter_fst_length]
  rw [Nat.add_comm, List.replicate_succ]


end Wellen.FstFile
