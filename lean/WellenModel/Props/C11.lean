import WellenModel.Model.Ghw
import WellenModel.Model.GhwSpec
import WellenModel.Proofs.Slice
/-!
# C11 — GHW files load faithfully

Model: `Model/Ghw.lean` (byte-level reader, type classification, signal tracker, per-bit vector buffer, value
dispatch into the store model). Specification: `Model/GhwSpec.lean` (an abstract design and the waveform it
denotes). The theorems are about the pure components the byte-level reader is built from; the composition
(file ↦ waveform) is checked by the correspondence run (impl = model = spec on generated files).
-/
namespace Wellen.Ghw
open Wellen.Bits Wellen.Store Wellen.Slice

/-! ### vectors are assembled from their per-bit records -/

def byteSet (st : States) (old k value : Nat) : Nat :=
  ((old &&& (255 - ((st.mask <<< (k * st.bits)) % 256))) ||| (value <<< (k * st.bits))) % 256

def byteGet (st : States) (b k : Nat) : Nat := (b >>> (k * st.bits)) &&& st.mask

/-- one byte: writing symbol `k` changes symbol `k` and nothing else (all bytes, positions and symbol values) -/
theorem byte_two : ∀ (old : Fin 256) (k j : Fin 8) (v : Fin 2),
    byteGet .two (byteSet .two old.val k.val v.val) j.val = (if j = k then v.val else byteGet .two old.val j.val) ∧
    byteSet .two old.val k.val v.val < 256 := by decide +kernel
theorem byte_four : ∀ (old : Fin 256) (k j : Fin 4) (v : Fin 4),
    byteGet .four (byteSet .four old.val k.val v.val) j.val = (if j = k then v.val else byteGet .four old.val j.val) ∧
    byteSet .four old.val k.val v.val < 256 := by decide +kernel
theorem byte_nine : ∀ (old : Fin 256) (k j : Fin 2) (v : Fin 16),
    byteGet .nine (byteSet .nine old.val k.val v.val) j.val = (if j = k then v.val else byteGet .nine old.val j.val) ∧
    byteSet .nine old.val k.val v.val < 256 := by decide +kernel

theorem byte_set_get (st : States) (old k j v : Nat) (ho : old < 256) (hk : k < st.bib) (hj : j < st.bib) (hv : v ≤ st.mask) :
    byteGet st (byteSet st old k v) j = (if j = k then v else byteGet st old j) := by
  cases st with
  | two =>
    have := (byte_two ⟨old, ho⟩ ⟨k, hk⟩ ⟨j, hj⟩ ⟨v, by simp [States.mask, States.bits] at hv; omega⟩).1
    simpa [Fin.ext_iff] using this
  | four =>
    have := (byte_four ⟨old, ho⟩ ⟨k, hk⟩ ⟨j, hj⟩ ⟨v, by simp [States.mask, States.bits] at hv; omega⟩).1
    simpa [Fin.ext_iff] using this
  | nine =>
    have := (byte_nine ⟨old, ho⟩ ⟨k, hk⟩ ⟨j, hj⟩ ⟨v, by simp [States.mask, States.bits] at hv; omega⟩).1
    simpa [Fin.ext_iff] using this

/-- a vector buffer whose data has the length `from_vec_info` allocates -/
def VecBuf.WF (v : VecBuf) : Prop := v.data.length = divCeil v.bits v.st.bib ∧ ∀ b ∈ v.data, b < 256

theorem setValue_data (v : VecBuf) (bit value : Nat) :
    (v.setValue bit value).data =
      v.data.set (divCeil v.bits v.st.bib - 1 - bit / v.st.bib) (byteSet v.st (v.data.getD (divCeil v.bits v.st.bib - 1 - bit / v.st.bib) 0) (bit % v.st.bib) value) := by
  simp [VecBuf.setValue, dataIndex, byteSet]

/-- **the symbol at position `bit` of the assembled value is the value written for that bit; all other
positions keep their symbol** (`symAt` is the addressing `slice_signal` and the renderer use, see C13) -/
theorem C11_set_get (v : VecBuf) (hwf : v.WF) (bit j value : Nat) (hb : bit < v.bits) (hj : j < v.bits) (hv : value ≤ v.st.mask) :
    symAt v.st (v.setValue bit value).data j = (if j = bit then value else symAt v.st v.data j) := by
  obtain ⟨hlen, hbytes⟩ := hwf
  have hbib : 0 < v.st.bib := by cases v.st <;> decide
  rw [setValue_data]
  simp only [symAt, List.length_set, hlen]
  have hdc : ∀ x, x < v.bits → x / v.st.bib < divCeil v.bits v.st.bib := by
    intro x hx
    unfold divCeil
    rw [Nat.div_lt_iff_lt_mul hbib]
    have := Nat.div_add_mod (v.bits + v.st.bib - 1) v.st.bib
    have := Nat.mod_lt (v.bits + v.st.bib - 1) hbib
    have h3 : (v.bits + v.st.bib - 1) / v.st.bib * v.st.bib = v.st.bib * ((v.bits + v.st.bib - 1) / v.st.bib) := Nat.mul_comm _ _
    omega
  have h1 := hdc bit hb
  have h2 := hdc j hj
  by_cases hsame : j / v.st.bib = bit / v.st.bib
  · rw [hsame]
    have hidx : divCeil v.bits v.st.bib - 1 - bit / v.st.bib < v.data.length := by
      rw [hlen]; generalize bit / v.st.bib = q at h1 ⊢; generalize divCeil v.bits v.st.bib = D at h1 ⊢; omega
    rw [List.getD_eq_getElem?_getD, List.getElem?_set_self (by simpa using hidx)]
    simp only [Option.getD_some]
    have hold : v.data.getD (divCeil v.bits v.st.bib - 1 - bit / v.st.bib) 0 < 256 := by
      rw [List.getD_eq_getElem?_getD, List.getElem?_eq_getElem hidx]
      exact hbytes _ (List.getElem_mem hidx)
    have := byte_set_get v.st _ (bit % v.st.bib) (j % v.st.bib) value hold (Nat.mod_lt _ hbib) (Nat.mod_lt _ hbib) hv
    simp only [byteGet] at this
    rw [this]
    have hiff : (j % v.st.bib = bit % v.st.bib) ↔ j = bit := by
      constructor
      · intro hm
        have a := Nat.div_add_mod j v.st.bib
        have b := Nat.div_add_mod bit v.st.bib
        rw [hsame, hm] at a
        omega
      · intro h; rw [h]
    by_cases hjb : j = bit
    · simp [hjb]
    · have : ¬ (j % v.st.bib = bit % v.st.bib) := fun h => hjb (hiff.mp h)
      simp [hjb, this, List.getD_eq_getElem?_getD]
  · have hne : j ≠ bit := fun h => hsame (by rw [h])
    have hidx : divCeil v.bits v.st.bib - 1 - bit / v.st.bib ≠ divCeil v.bits v.st.bib - 1 - j / v.st.bib := by
      generalize bit / v.st.bib = q at h1 hsame ⊢; generalize j / v.st.bib = q2 at h2 hsame ⊢
      generalize divCeil v.bits v.st.bib = D at h1 h2 ⊢; omega
    rw [List.getD_eq_getElem?_getD, List.getElem?_set_ne hidx]
    simp [hne, List.getD_eq_getElem?_getD]

/-- writing a bit keeps the buffer well formed -/
theorem setValue_wf (v : VecBuf) (hwf : v.WF) (bit value : Nat) (hb : bit < v.bits) (hv : value ≤ v.st.mask) :
    (v.setValue bit value).WF ∧ (v.setValue bit value).bits = v.bits ∧ (v.setValue bit value).st = v.st := by
  obtain ⟨hlen, hbytes⟩ := hwf
  refine ⟨⟨?_, ?_⟩, rfl, rfl⟩
  · rw [setValue_data]; simp [VecBuf.setValue, hlen]
  · rw [setValue_data]
    intro b hb'
    rcases List.mem_or_eq_of_mem_set hb' with h | h
    · exact hbytes b h
    · rw [h]
      have hbib : 0 < v.st.bib := by cases v.st <;> decide
      have hk : bit % v.st.bib < v.st.bib := Nat.mod_lt _ hbib
      generalize v.data.getD (divCeil v.bits v.st.bib - 1 - bit / v.st.bib) 0 = old
      -- the result is taken modulo 256
      unfold byteSet; exact Nat.mod_lt _ (by decide)

/-- all bit records of a time step, in the order the file lists them -/
def writeAll (v : VecBuf) (ws : List (Nat × Nat)) : VecBuf := ws.foldl (fun v w => v.setValue w.1 w.2) v

/-- the value the records of a time step assign to position `j`: the last record for `j`, if any -/
def lastWrite (ws : List (Nat × Nat)) (j : Nat) : Option Nat := (ws.reverse.find? (fun w => w.1 == j)).map (·.2)

/-- **a vector is assembled from its per-bit records**: after any sequence of bit records (any order, repetitions allowed),
every position of the assembled value holds the last value recorded for it, and the positions without a record keep
their previous symbol -/
theorem C11_vector_assembled (ws : List (Nat × Nat)) : ∀ (v : VecBuf), v.WF →
    (∀ w ∈ ws, w.1 < v.bits ∧ w.2 ≤ v.st.mask) → ∀ j, j < v.bits →
    symAt v.st (writeAll v ws).data j = (lastWrite ws j).getD (symAt v.st v.data j) := by
  induction ws with
  | nil => intro v _ _ j _; simp [writeAll, lastWrite]
  | cons w ws ih =>
    intro v hwf hws j hj
    have hw := hws w (by simp)
    obtain ⟨hwf', hbits, hst⟩ := setValue_wf v hwf w.1 w.2 hw.1 hw.2
    have hrec := ih (v.setValue w.1 w.2) hwf' (fun x hx => by rw [hbits, hst]; exact hws x (by simp [hx])) j (by rw [hbits]; exact hj)
    simp only [writeAll, List.foldl_cons] at hrec ⊢
    rw [hst] at hrec
    rw [hrec, C11_set_get v hwf w.1 j w.2 hw.1 hj hw.2]
    simp only [lastWrite, List.reverse_cons, List.find?_append]
    cases hf : ws.reverse.find? (fun x => x.1 == j) with
    | some y => simp
    | none =>
      by_cases hjw : j = w.1
      · simp [hjw]
      · have : ¬ (w.1 = j) := fun h => hjw h.symm
        simp [hjw, this]

/-! ### std_ulogic values -/

/-- the lookup table of the code maps GHDL's literal position (U X 0 1 Z W L H -) to the symbol that renders as that literal -/
theorem C11_lut : ∀ g : Fin 9, stdLut[g.val]? = GhwSpec.nineSym g.val := by decide +kernel

/-! ### integers are 32-bit two's complement -/

/-- the 8 big-endian bytes `read_signal_value` hands to the encoder end in the 4 bytes of the two's complement of the value -/
theorem C11_int32 (v : Int) (k : Nat) (hk : k < 4) :
    ((v % 2 ^ 64).toNat >>> (8 * k)) % 256 = ((v % 2 ^ 32).toNat >>> (8 * k)) % 256 := by
  simp only [Nat.shiftRight_eq_div_pow]
  have h64 : 0 ≤ v % 2 ^ 64 := Int.emod_nonneg _ (by decide)
  have h32 : 0 ≤ v % 2 ^ 32 := Int.emod_nonneg _ (by decide)
  have e : ((v % 2 ^ 64).toNat : Int) = v % 2 ^ 64 := Int.toNat_of_nonneg h64
  have e2 : ((v % 2 ^ 32).toNat : Int) = v % 2 ^ 32 := Int.toNat_of_nonneg h32
  have hk' : k = 0 ∨ k = 1 ∨ k = 2 ∨ k = 3 := by omega
  rcases hk' with rfl | rfl | rfl | rfl <;> simp <;> omega

/-! ### enums are the binary code of the literal index -/

/-- `get_enum_bits`: the smallest width that holds every literal index -/
theorem C11_enum_bits (n : Nat) (hn : 1 ≤ n) :
    enumBits n = GhwSpec.bitsFor n ∧ n ≤ 2 ^ enumBits n ∧ (0 < enumBits n → 2 ^ (enumBits n - 1) < n) := by
  unfold enumBits GhwSpec.bitsFor
  by_cases h1 : n = 1
  · subst h1; simp
  · have hn0 : n ≠ 0 := by omega
    have hle : ¬ n ≤ 1 := by omega
    simp only [hn0, ↓reduceIte, h1, hle, true_and]
    have hm : n - 1 ≠ 0 := by omega
    have a := Nat.lt_log2_self (n := n - 1)
    have b := Nat.log2_self_le hm
    constructor
    · omega
    · intro _; simp; omega

/-! ### array elements are labelled in the declared direction -/

theorem C11_labels_model_eq_spec (d : Dir) (l r : Int) :
    (IntRange.elems ⟨d, l, r⟩) = GhwSpec.elemLabels (d == .downto) l r := by
  cases d <;> simp [IntRange.elems, IntRange.len, GhwSpec.elemLabels, GhwSpec.vecLen]

/-- the `k`-th element in declaration order is `left + k` (to) / `left - k` (downto) -/
theorem C11_labels (downto : Bool) (l r : Int) (k : Nat) (hk : k < (GhwSpec.vecLen downto l r).toNat) :
    (GhwSpec.elemLabels downto l r)[k]? = some (if downto then l - k else l + k) := by
  simp [GhwSpec.elemLabels, hk]

/-! ### delta cycles -/

/-- **changes of successive delta cycles of one simulation time are recorded under the same time index**: a step at the
current time leaves the time table as it is (so its entries carry the index of the previous step), a later time
appends exactly one entry -/
theorem C11_delta_cycle (leaves : List GhwSpec.Leaf) (s s' : GhwSpec.WSt) (t : Nat) (r : List Nat)
    (ch : List (Nat × GhwSpec.AVal)) (hs : s.ttRev = t :: r) (h : GhwSpec.stepW leaves s t ch = some s') :
    s'.ttRev = t :: r := by
  unfold GhwSpec.stepW at h
  simp only [hs, Nat.lt_irrefl, ↓reduceIte] at h
  split at h
  · cases h
  · rename_i ch' hgo
    cases h; rfl

theorem C11_new_time (leaves : List GhwSpec.Leaf) (s s' : GhwSpec.WSt) (t u : Nat) (r : List Nat)
    (ch : List (Nat × GhwSpec.AVal)) (hs : s.ttRev = t :: r) (hu : t < u) (h : GhwSpec.stepW leaves s u ch = some s') :
    s'.ttRev = u :: t :: r := by
  unfold GhwSpec.stepW at h
  simp only [hs, hu, ↓reduceIte] at h
  split at h
  · cases h
  · cases h; rfl

/-! ### non-vacuity -/
example : (VecBuf.ofInfo { min := 0, max := 9, two := false, ref := 0 }).WF := by
  constructor
  · decide
  · intro b hb; simp [VecBuf.ofInfo] at hb; omega
example : ((VecBuf.ofInfo { min := 0, max := 2, two := false, ref := 0 }).setValue 2 5 |>.setValue 0 1).data = [5, 1] := by decide
example : GhwSpec.elemLabels true 1 0 = [1, 0] ∧ GhwSpec.elemLabels false 3 5 = [3, 4, 5] := by decide
example : lastWrite [(0, 1), (2, 5), (0, 3)] 0 = some 3 ∧ lastWrite [(0, 1), (2, 5)] 1 = none := by decide
example : enumBits 2 = 1 ∧ enumBits 3 = 2 ∧ enumBits 9 = 4 ∧ enumBits 1 = 0 := by decide

/-! ### byte order -/

/-- the `k` bytes of `n`, most significant first -/
def bytesBE : Nat → Nat → List Nat
  | 0, _ => []
  | k + 1, n => bytesBE k (n / 256) ++ [n % 256]

theorem foldl_bytesBE : ∀ (k n acc : Nat),
    (bytesBE k n).foldl (fun a b => a * 256 + b) acc = acc * 256 ^ k + n % 256 ^ k := by
  intro k
  induction k with
  | zero => intro n acc; simp [bytesBE, Nat.mod_one]
  | succ k ih =>
    intro n acc
    simp only [bytesBE, List.foldl_append, List.foldl_cons, List.foldl_nil, ih]
    have h1 : n % 256 ^ (k + 1) = (n / 256 % 256 ^ k) * 256 + n % 256 := by
      rw [Nat.pow_succ, Nat.mul_comm (256 ^ k) 256, Nat.mod_mul]; omega
    rw [h1, Nat.pow_succ]
    have : acc * (256 ^ k * 256) = acc * 256 ^ k * 256 := by rw [Nat.mul_assoc]
    omega

theorem bytesBE_length : ∀ (k n : Nat), (bytesBE k n).length = k := by
  intro k; induction k with
  | zero => intro n; rfl
  | succ k ih => intro n; simp [bytesBE, ih]

/-- **both byte orders are read alike**: the `k` bytes of `n` in big-endian order, read with the big-endian flag, and the same
bytes reversed (little-endian order), read without it, give `n` (for `n < 256^k`) — so a time, an integer or a length means the
same in a big-endian and a little-endian GHW file -/
theorem C11_endianness (k n : Nat) (h : n < 256 ^ k) :
    natOfBytes true (bytesBE k n) = n ∧ natOfBytes false (bytesBE k n).reverse = n := by
  have := foldl_bytesBE k n 0
  simp only [Nat.zero_mul, Nat.zero_add, Nat.mod_eq_of_lt h] at this
  exact ⟨by simp [natOfBytes, this], by simp [natOfBytes, this]⟩

/-- … in particular 64-bit times (femtoseconds) and two's-complement integers -/
theorem C11_i64_endianness (t : Nat) (h : t < 2 ^ 63) :
    i64Of true (bytesBE 8 t) = t ∧ i64Of false (bytesBE 8 t).reverse = t := by
  have hk : t < 256 ^ 8 := by
    have : (256 : Nat) ^ 8 = 2 ^ 64 := by decide
    rw [this]; omega
  obtain ⟨h1, h2⟩ := C11_endianness 8 t hk
  unfold i64Of
  simp only [h1, h2]
  have : ¬ t ≥ 2 ^ 63 := by omega
  simp [this]

example : natOfBytes true [0, 0, 1, 2] = 258 ∧ natOfBytes false [2, 1, 0, 0] = 258 := by decide


end Wellen.Ghw
