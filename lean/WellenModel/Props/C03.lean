import WellenModel.Proofs.VcdStop
import WellenModel.Proofs.TimeTable
import WellenModel.Proofs.Mt
import WellenModel.Props.C04
import WellenModel.Proofs.SplitFree
/-!
# C03 — multi-threaded VCD loading equals single-threaded loading

In the model the schedule quantifier disappears: each chunk is parsed by a pure function of the
immutable input (`readStream`), the results are collected in chunk order (rayon's ordered `collect`,
trusted) and appended sequentially. What is proved here:
* `C03_chunks`: the chunk arithmetic yields at least one chunk, chunks start at multiples of the chunk
  size beginning with 0, and together they cover the body;
* `C03_chunk_events_prefix`: a chunk (stop position set) emits a prefix of the events the unbounded
  parser emits from the same start — the hand-over exit only ever cuts the stream at a timestamp;
* `C03_append_table`: appending encoders concatenates their time tables (no entry lost or invented).
* `C03_mt_load_is_store_run`: a multi-threaded load that succeeds IS the store run with one encoder per chunk
  (`Spec.runSegs`) on the operations each chunk's events denote; with `C04_store_refines_spec_all` the loaded signals are
  therefore exactly what the abstract specification says about `ops(chunk 0) ++ split ++ ops(chunk 1) ++ …`
  (`C03_mt_loaded_signal`).
* `C03_split_transparent` / `C03_mt_loaded_signal_single`: the `split` marks are transparent for the specification, so the
  loaded signals are what ONE thread recording the concatenated per-chunk operations would have produced.
What is NOT proved is the purely lexical last step of `mt = st` for hand-over-safe bodies — that those per-chunk
operations are the operations of the whole body; it is checked differentially against the Lean model of the chunked
parser on every boundary alignment (see evidence). For bodies that are not hand-over safe the property is false for
the current code (known finding FMT).
-/
namespace Wellen.VcdBody
open Wellen.Bits Wellen.Store Wellen.Spec

theorem C03_chunks (bodyLen threads minChunk : Nat) :
    let cs := determineChunks bodyLen threads minChunk
    cs ≠ [] ∧ (∀ i, (h : i < cs.length) → cs[i] = (i * (cs[i]).2, (cs[i]).2)) ∧
    bodyLen ≤ cs.length * (divCeil bodyLen cs.length) := by
  simp only [determineChunks]
  refine ⟨?_, ?_, ?_⟩
  · have : 0 < max 1 (min threads (divCeil bodyLen minChunk)) := by omega
    intro h
    have h2 := congrArg List.length h
    simp at h2
  · intro i h
    simp
  · simp only [List.length_map, List.length_range]
    have hn : 0 < max 1 (min threads (divCeil bodyLen minChunk)) := by omega
    generalize max 1 (min threads (divCeil bodyLen minChunk)) = n at hn
    unfold divCeil
    have h1 := Nat.div_add_mod (bodyLen + n - 1) n
    have h2 := Nat.mod_lt (bodyLen + n - 1) hn
    have : n * ((bodyLen + n - 1) / n) = (bodyLen + n - 1) - (bodyLen + n - 1) % n := by omega
    rw [this]; omega

/-- the hand-over exit only truncates: a chunk's events are a prefix of the unbounded parse's events -/
theorem run_stop_prefix (s : Nat) (bs : List Nat) : ∀ (m : M),
    evsOf (run (some s) m bs) <+: evsOf (run none m bs) := by
  induction bs with
  | nil => intro m; exact List.prefix_refl _
  | cons b bs ih =>
    intro m
    simp only [run]
    -- compare one step with and without the stop position
    rcases step_shape (some s) m b with ⟨m1, h1, _, _⟩ | h1 | h1
    · -- no exit: the step without stop is the same step
      have h2 : step none m b = .cont m1 := by
        unfold step at h1 ⊢
        cases hst : m.st <;> simp only [hst] at h1 ⊢
        · exact h1
        · by_cases hw : isWs b = true
          · simp only [hw, ↓reduceIte] at h1 ⊢
            by_cases he : m.first.isEmpty = true
            · simp only [he, ↓reduceIte] at h1 ⊢; exact h1
            · simp only [he, Bool.false_eq_true, ↓reduceIte] at h1 ⊢
              cases hp : parseFirst m.first.reverse <;> simp only [hp] at h1 ⊢
              · by_cases hc : decide (m.pos - m.first.reverse.length - 1 > s) = true
                · simp only [hc, ↓reduceIte] at h1; cases h1
                · simp only [hc, Bool.false_eq_true, ↓reduceIte] at h1 ⊢; exact h1
              all_goals exact h1
          · simp only [hw, Bool.false_eq_true, ↓reduceIte] at h1 ⊢; exact h1
        · exact h1
        · exact h1
      rw [h1, h2]; exact ih m1
    · rw [h1]
      -- exit: the events so far are a prefix of whatever the unbounded parse produces
      have := run_evs_prefix none (b :: bs) m
      simpa [run, evsOf] using this
    · -- error is independent of the stop position
      have h2 : step none m b = .error m.evs.reverse := by
        unfold step at h1 ⊢
        cases hst : m.st <;> simp only [hst] at h1 ⊢
        · split at h1 <;> cases h1
        · by_cases hw : isWs b = true
          · simp only [hw, ↓reduceIte] at h1 ⊢
            by_cases he : m.first.isEmpty = true
            · simp only [he, ↓reduceIte] at h1; cases h1
            · simp only [he, Bool.false_eq_true, ↓reduceIte] at h1 ⊢
              cases hp : parseFirst m.first.reverse <;> simp only [hp] at h1 ⊢
              · by_cases hc : decide (m.pos - m.first.reverse.length - 1 > s) = true
                · simp only [hc, ↓reduceIte] at h1; cases h1
                · simp only [hc, Bool.false_eq_true, ↓reduceIte] at h1; cases h1
              all_goals first | cases h1 | rfl
          · simp only [hw, Bool.false_eq_true, ↓reduceIte] at h1; cases h1
        · split at h1
          · split at h1 <;> cases h1
          · cases h1
        · split at h1
          · split at h1
            · cases h1
            · split at h1 <;> cases h1
          · cases h1
      rw [h1, h2]; exact List.prefix_refl _

theorem C03_chunk_events_prefix (s : Nat) (bs : List Nat) (nl : Bool) :
    evsOf (parseBody (some s) bs nl) <+: evsOf (parseBody none bs nl) :=
  run_stop_prefix s bs (initM nl)

/-- appending concatenates the time tables of two finished encoders -/
theorem C03_append_table (c : Codec) (a b e : Enc) (ha : Inv a) (hb : Inv b)
    (h : append c a b = some e) : (finish c e).2 = (finish c a).2 ++ (finish c b).2 := by
  have hfa : ∀ x : Enc, Inv x → ((finishBlock c x).blocksRev.reverse.flatMap (·.timeTable)) = table x ∧
      (finishBlock c x).hasNewData = false := by
    intro x hx
    by_cases hd : x.hasNewData = true
    · exact ⟨finishBlock_dirty c x hd, by simp [finishBlock, hd]⟩
    · have hd' : x.hasNewData = false := by simpa using hd
      rw [finishBlock_clean c x hd']
      have : x.timeRev = [] := by
        by_cases ht : x.timeRev = []
        · exact ht
        · have := hx.dirty ht; rw [hd'] at this; cases this
      exact ⟨by simp [table, this], hd'⟩
  obtain ⟨ta, da⟩ := hfa a ha
  obtain ⟨tb, db⟩ := hfa b hb
  rw [finish_table c a ha, finish_table c b hb, ← ta, ← tb]
  unfold append at h
  simp only at h
  have hfin : ∀ x : Enc, x.hasNewData = false → (finish c x).2 = x.blocksRev.reverse.flatMap (·.timeTable) := by
    intro x hx
    simp [finish, finishBlock_clean c x hx]
  cases hbr : (finishBlock c b).blocksRev.reverse with
  | nil =>
    rw [hbr] at h
    simp only [Option.some.injEq] at h
    subst h
    rw [hfin _ da]
    simp
  | cons bf rest =>
    rw [hbr] at h
    simp only at h
    cases har : (finishBlock c a).blocksRev with
    | nil =>
      rw [har] at h
      simp only [Option.some.injEq] at h
      subst h
      rw [hfin _ (by simpa using da)]
      simp [har, hbr]
    | cons al r2 =>
      rw [har] at h
      simp only at h
      split at h
      · simp only [Option.some.injEq] at h
        subst h
        rw [hfin _ (by simpa using da)]
        simp [har, List.flatMap_append, hbr]
      · cases h

example : determineChunks 100 4 16 = [(0, 25), (25, 25), (50, 25), (75, 25)] := by decide


/-- a multi-threaded load that succeeds is the store run (`Spec.runSegs`: one encoder per chunk, appended in order) on the
per-chunk operations -/
theorem C03_mt_load_is_store_run (c : Codec) (d : Decls) (rm : RealMap) (body : List Nat) (threads minChunk : Nat) (enc : Enc)
    (h : readValues c d rm body (.multi threads minChunk) = .ok enc) :
    ∃ seg0 rest, (determineChunks body.length threads minChunk).mapM (chunkOps d rm body) = some (seg0 :: rest) ∧
      Spec.runSegs c d.sigTypes (seg0 ++ joinSegs rest) = some enc :=
  mt_load_is_store_run c d rm body threads minChunk enc h

/-- … hence every signal it loads is what the abstract specification denotes for those operations (any signal type) -/
theorem C03_mt_loaded_signal (c : Codec) (d : Decls) (rm : RealMap) (body : List Nat) (threads minChunk : Nat) (enc : Enc)
    (h : readValues c d rm body (.multi threads minChunk) = .ok enc)
    (i : Nat) (hbm : 1 ≤ c.blockMax) (hbmax : c.blockMax ≤ 2 ^ 28) (tpe : SigType) (hw : ∀ b, tpe = .bitvec b → 1 ≤ b)
    (hti : d.sigTypes[i]? = some tpe)
    (hsmall : ∀ b ∈ (finish c enc).1.blocks, b.data.length < 2 ^ 36) :
    ∃ ops, Spec.runSegs c d.sigTypes ops = some enc ∧
      ((∀ op ∈ ops, ∀ j v r, op = .vcd j v (some r) → r.length = 8) →
       ∀ tt sigs, Spec.run d.sigTypes ops = some (tt, sigs) →
        ∃ sigS chg, sigs[i]? = some chg ∧
          loadSignal (finish c enc).1 i tpe =
            some { maxStates := sigS, times := chg.map (·.1),
                   entries := chg.map (fun x => (kindFor tpe hw).entry sigS (encVK (kindFor tpe hw) x)) }) := by
  obtain ⟨seg0, rest, _, hrun⟩ := mt_load_is_store_run c d rm body threads minChunk enc h
  refine ⟨seg0 ++ joinSegs rest, hrun, ?_⟩
  intro hreal tt sigs hspec
  obtain ⟨sigS, chg, h1, h2, _⟩ := C04_store_refines_spec_all c i hbm hbmax d.sigTypes tpe hw hti _ hreal enc hrun tt sigs hspec hsmall
  exact ⟨sigS, chg, h1, h2⟩

/-- **division among parser threads is transparent** (specification level): whatever a history with `split` marks — one
encoder per chunk, appended — denotes, the same operations recorded by ONE thread (the marks removed) denote as well: the
same time table and the same change list for every signal -/
theorem C03_split_transparent (tps : List SigType) (ops : List Spec.Op) (r : List Nat × List (List (Nat × Spec.Value)))
    (h : Spec.run tps ops = some r) : Spec.run tps (Spec.dropSplits ops) = some r :=
  Spec.run_dropSplits tps ops r h

/-- … so a multi-threaded load that succeeds yields, for every signal, exactly what the specification denotes for the
CONCATENATION of the per-chunk operations read as one single-threaded recording (`dropSplits`): the store-level half of
`mt = st`. What remains differential is only that the per-chunk operations are the operations of the whole body (the
lexical hand-over, FMT). -/
theorem C03_mt_loaded_signal_single (c : Codec) (d : Decls) (rm : RealMap) (body : List Nat) (threads minChunk : Nat) (enc : Enc)
    (h : readValues c d rm body (.multi threads minChunk) = .ok enc)
    (i : Nat) (hbm : 1 ≤ c.blockMax) (hbmax : c.blockMax ≤ 2 ^ 28) (tpe : SigType) (hw : ∀ b, tpe = .bitvec b → 1 ≤ b)
    (hti : d.sigTypes[i]? = some tpe)
    (hsmall : ∀ b ∈ (finish c enc).1.blocks, b.data.length < 2 ^ 36) :
    ∃ ops, Spec.runSegs c d.sigTypes ops = some enc ∧
      ((∀ op ∈ ops, ∀ j v r, op = .vcd j v (some r) → r.length = 8) →
       ∀ tt sigs, Spec.run d.sigTypes ops = some (tt, sigs) →
        Spec.run d.sigTypes (Spec.dropSplits ops) = some (tt, sigs) ∧
        ∃ sigS chg, sigs[i]? = some chg ∧
          loadSignal (finish c enc).1 i tpe =
            some { maxStates := sigS, times := chg.map (·.1),
                   entries := chg.map (fun x => (kindFor tpe hw).entry sigS (encVK (kindFor tpe hw) x)) }) := by
  obtain ⟨ops, h1, h2⟩ := C03_mt_loaded_signal c d rm body threads minChunk enc h i hbm hbmax tpe hw hti hsmall
  refine ⟨ops, h1, ?_⟩
  intro hreal tt sigs hspec
  exact ⟨C03_split_transparent _ _ _ hspec, h2 hreal tt sigs hspec⟩

/-- non-vacuity: two chunks, the second opening a new maximum -/
example : Spec.run [.bitvec 1] [.time 0, .vcd 0 [49] none, .split, .time 5, .vcd 0 [48] none] =
    Spec.run [.bitvec 1] (Spec.dropSplits [.time 0, .vcd 0 [49] none, .split, .time 5, .vcd 0 [48] none]) ∧
    (Spec.run [.bitvec 1] [.time 0, .vcd 0 [49] none, .split, .time 5, .vcd 0 [48] none]).isSome = true := by decide

end Wellen.VcdBody
