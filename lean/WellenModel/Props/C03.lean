import WellenModel.Proofs.VcdStop
import WellenModel.Proofs.TimeTable
import WellenModel.Proofs.Mt
import WellenModel.Props.C04
import WellenModel.Props.C01
import WellenModel.Props.C02
import WellenModel.Proofs.SplitFree
import WellenModel.Proofs.Handover
/-!
# C03 — multi-threaded VCD loading equals single-threaded loading

In the model the schedule quantifier disappears: each chunk is parsed by a pure function of the
immutable input (`readStream`), the results are collected in chunk order (rayon's ordered `collect`,
trusted) and appended sequentially. What is proved here:
* `C03_chunks`: the chunk arithmetic yields at least one chunk, chunks start at multiples of the chunk
  size beginning with 0, and together they cover the body;
* `C03_chunk_events_prefix`: a chunk (stop position set) emits a prefix of the events the unbounded
  parser emits from the same start — the hand-over exit only ever cuts the stream at a timestamp;
* `C03_worker_reproduces_segment`: a worker that resynchronised at a line where the whole-body parser is in the same lexical
  state emits a prefix of what the whole-body parser emits from there — it never invents, reorders or alters an event
  (`Proofs/Handover.lean`: the parser without stop position ignores positions and earlier events, `step_lift`);
* `C03_append_table`: appending encoders concatenates their time tables (no entry lost or invented).
* `C03_mt_load_is_store_run`: a multi-threaded load that succeeds IS the store run with one encoder per chunk
  (`Spec.runSegs`) on the operations each chunk's events denote; with `C04_store_refines_spec_all` the loaded signals are
  therefore exactly what the abstract specification says about `ops(chunk 0) ++ split ++ ops(chunk 1) ++ …`
  (`C03_mt_loaded_signal`).
* `C03_split_transparent` / `C03_mt_loaded_signal_single`: the `split` marks are transparent for the specification, so the
  loaded signals are what ONE thread recording the concatenated per-chunk operations would have produced.
* `C03_mt_eq_st_given_handover`: the composition — if both loads succeed and the per-chunk operations are the whole body's
  operations (`HandoverLexical`, the one assumption), both loads report the same change list for every signal.
* `C03_segs_time_table` / `C03_mt_time_table`: the time table of the appended encoders is the specification's table for the
  divided history (strictly increasing, every new maximum once), whatever the division and the block size.
* `C03_mt_eq_st_undivided`: for bodies that are not divided (one worker, or not longer than the minimal chunk size — the 16 KiB
  of production) the lexical assumption holds (`C03_handover_lexical_undivided`) and `mt = st` is proved without assumption.
What is NOT proved is the purely lexical last step of `mt = st` for hand-over-safe bodies — that those per-chunk
operations are the operations of the whole body; it is checked differentially against the Lean model of the chunked
parser on every boundary alignment (see evidence). For bodies that are not hand-over safe the property is false for
the current code (known finding FMT).
-/
namespace Wellen.VcdBody
open Wellen.Bits Wellen.Store Wellen.Spec

theorem C03_chunks (bodyLen threads minChunk : Nat) :
    let cs := determineChunks bodyLen threads minChunk
    cs ≠ [] ∧ (∀ i, (h : i < cs.length) → cs[i] = (i * (cs[i]).2, (cs[i]).2)) ∧
    bodyLen ≤ cs.length * (divCeil bodyLen cs.length) := by
  simp only [determineChunks]
  refine ⟨?_, ?_, ?_⟩
  · have : 0 < max 1 (min threads (divCeil bodyLen minChunk)) := by omega
    intro h
    have h2 := congrArg List.length h
    simp at h2
  · intro i h
    simp
  · simp only [List.length_map, List.length_range]
    have hn : 0 < max 1 (min threads (divCeil bodyLen minChunk)) := by omega
    generalize max 1 (min threads (divCeil bodyLen minChunk)) = n at hn
    unfold divCeil
    have h1 := Nat.div_add_mod (bodyLen + n - 1) n
    have h2 := Nat.mod_lt (bodyLen + n - 1) hn
    have : n * ((bodyLen + n - 1) / n) = (bodyLen + n - 1) - (bodyLen + n - 1) % n := by omega
    rw [this]; omega

/-- the hand-over exit only truncates: a chunk's events are a prefix of the unbounded parse's events -/
theorem run_stop_prefix (s : Nat) (bs : List Nat) : ∀ (m : M),
    evsOf (run (some s) m bs) <+: evsOf (run none m bs) := by
  induction bs with
  | nil => intro m; exact List.prefix_refl _
  | cons b bs ih =>
    intro m
    simp only [run]
    -- compare one step with and without the stop position
    rcases step_shape (some s) m b with ⟨m1, h1, _, _⟩ | h1 | h1
    · -- no exit: the step without stop is the same step
      have h2 : step none m b = .cont m1 := by
        unfold step at h1 ⊢
        cases hst : m.st <;> simp only [hst] at h1 ⊢
        · exact h1
        · by_cases hw : isWs b = true
          · simp only [hw, ↓reduceIte] at h1 ⊢
            by_cases he : m.first.isEmpty = true
            · simp only [he, ↓reduceIte] at h1 ⊢; exact h1
            · simp only [he, Bool.false_eq_true, ↓reduceIte] at h1 ⊢
              cases hp : parseFirst m.first.reverse <;> simp only [hp] at h1 ⊢
              · by_cases hc : decide (m.pos - m.first.reverse.length - 1 > s) = true
                · simp only [hc, ↓reduceIte] at h1; cases h1
                · simp only [hc, Bool.false_eq_true, ↓reduceIte] at h1 ⊢; exact h1
              all_goals exact h1
          · simp only [hw, Bool.false_eq_true, ↓reduceIte] at h1 ⊢; exact h1
        · exact h1
        · exact h1
      rw [h1, h2]; exact ih m1
    · rw [h1]
      -- exit: the events so far are a prefix of whatever the unbounded parse produces
      have := run_evs_prefix none (b :: bs) m
      simpa [run, evsOf] using this
    · -- error is independent of the stop position
      have h2 : step none m b = .error m.evs.reverse := by
        unfold step at h1 ⊢
        cases hst : m.st <;> simp only [hst] at h1 ⊢
        · split at h1 <;> cases h1
        · by_cases hw : isWs b = true
          · simp only [hw, ↓reduceIte] at h1 ⊢
            by_cases he : m.first.isEmpty = true
            · simp only [he, ↓reduceIte] at h1; cases h1
            · simp only [he, Bool.false_eq_true, ↓reduceIte] at h1 ⊢
              cases hp : parseFirst m.first.reverse <;> simp only [hp] at h1 ⊢
              · by_cases hc : decide (m.pos - m.first.reverse.length - 1 > s) = true
                · simp only [hc, ↓reduceIte] at h1; cases h1
                · simp only [hc, Bool.false_eq_true, ↓reduceIte] at h1; cases h1
              all_goals first | cases h1 | rfl
          · simp only [hw, Bool.false_eq_true, ↓reduceIte] at h1; cases h1
        · split at h1
          · split at h1 <;> cases h1
          · cases h1
        · split at h1
          · split at h1
            · cases h1
            · split at h1 <;> cases h1
          · cases h1
      rw [h1, h2]; exact List.prefix_refl _

theorem C03_chunk_events_prefix (s : Nat) (bs : List Nat) (nl : Bool) :
    evsOf (parseBody (some s) bs nl) <+: evsOf (parseBody none bs nl) :=
  run_stop_prefix s bs (initM nl)

/-- **a worker reproduces a segment of the whole parse**: let the parser of the whole body (no stop position) stand, after
the events `E`, at the beginning of a line in the state `lift E k c` — `c` being the state of a worker that has just
resynchronised at that line (same lexical state, no events yet, its own position count). Then the worker's events are a
prefix of the events the whole parser emits from there on: a worker never invents, reorders or alters an event, it only
stops early (at its hand-over timestamp) -/
theorem C03_worker_reproduces_segment (E : List Ev) (k s : Nat) (c : M) (rest : List Nat) :
    ∃ more, evsOf (run none (lift E k c) rest) = E.reverse ++ evsOf (run (some s) c rest) ++ more := by
  rw [run_lift]
  obtain ⟨more, hm⟩ := run_stop_prefix s rest c
  refine ⟨more, ?_⟩
  cases hr : run none c rest with
  | ok e => rw [hr] at hm; simp only [liftOut, evsOf] at hm ⊢; rw [← hm]; simp
  | err e => rw [hr] at hm; simp only [liftOut, evsOf] at hm ⊢; rw [← hm]; simp


/-- appending concatenates the time tables of two finished encoders -/
theorem C03_append_table (c : Codec) (a b e : Enc) (ha : Inv a) (hb : Inv b)
    (h : append c a b = some e) : (finish c e).2 = (finish c a).2 ++ (finish c b).2 := by
  have hfa : ∀ x : Enc, Inv x → ((finishBlock c x).blocksRev.reverse.flatMap (·.timeTable)) = table x ∧
      (finishBlock c x).hasNewData = false := by
    intro x hx
    by_cases hd : x.hasNewData = true
    · exact ⟨finishBlock_dirty c x hd, by simp [finishBlock, hd]⟩
    · have hd' : x.hasNewData = false := by simpa using hd
      rw [finishBlock_clean c x hd']
      have : x.timeRev = [] := by
        by_cases ht : x.timeRev = []
        · exact ht
        · have := hx.dirty ht; rw [hd'] at this; cases this
      exact ⟨by simp [table, this], hd'⟩
  obtain ⟨ta, da⟩ := hfa a ha
  obtain ⟨tb, db⟩ := hfa b hb
  rw [finish_table c a ha, finish_table c b hb, ← ta, ← tb]
  unfold append at h
  simp only at h
  have hfin : ∀ x : Enc, x.hasNewData = false → (finish c x).2 = x.blocksRev.reverse.flatMap (·.timeTable) := by
    intro x hx
    simp [finish, finishBlock_clean c x hx]
  cases hbr : (finishBlock c b).blocksRev.reverse with
  | nil =>
    rw [hbr] at h
    simp only [Option.some.injEq] at h
    subst h
    rw [hfin _ da]
    simp
  | cons bf rest =>
    rw [hbr] at h
    simp only at h
    cases har : (finishBlock c a).blocksRev with
    | nil =>
      rw [har] at h
      simp only [Option.some.injEq] at h
      subst h
      rw [hfin _ (by simpa using da)]
      simp [har, hbr]
    | cons al r2 =>
      rw [har] at h
      simp only at h
      split at h
      · simp only [Option.some.injEq] at h
        subst h
        rw [hfin _ (by simpa using da)]
        simp [har, List.flatMap_append, hbr]
      · cases h

example : determineChunks 100 4 16 = [(0, 25), (25, 25), (50, 25), (75, 25)] := by decide


/-- a multi-threaded load that succeeds is the store run (`Spec.runSegs`: one encoder per chunk, appended in order) on the
per-chunk operations -/
theorem C03_mt_load_is_store_run (c : Codec) (d : Decls) (rm : RealMap) (body : List Nat) (threads minChunk : Nat) (enc : Enc)
    (h : readValues c d rm body (.multi threads minChunk) = .ok enc) :
    ∃ seg0 rest, (determineChunks body.length threads minChunk).mapM (chunkOps d rm body) = some (seg0 :: rest) ∧
      Spec.runSegs c d.sigTypes (seg0 ++ joinSegs rest) = some enc :=
  mt_load_is_store_run c d rm body threads minChunk enc h

/-- … hence every signal it loads is what the abstract specification denotes for those operations (any signal type) -/
theorem C03_mt_loaded_signal (c : Codec) (d : Decls) (rm : RealMap) (body : List Nat) (threads minChunk : Nat) (enc : Enc)
    (h : readValues c d rm body (.multi threads minChunk) = .ok enc)
    (i : Nat) (hbm : 1 ≤ c.blockMax) (hbmax : c.blockMax ≤ 2 ^ 28) (tpe : SigType) (hw : ∀ b, tpe = .bitvec b → 1 ≤ b)
    (hti : d.sigTypes[i]? = some tpe)
    (hsmall : ∀ b ∈ (finish c enc).1.blocks, b.data.length < 2 ^ 36) :
    ∃ ops, Spec.runSegs c d.sigTypes ops = some enc ∧
      ((∀ op ∈ ops, ∀ j v r, op = .vcd j v (some r) → r.length = 8) →
       ∀ tt sigs, Spec.run d.sigTypes ops = some (tt, sigs) →
        ∃ sigS chg, sigs[i]? = some chg ∧
          loadSignal (finish c enc).1 i tpe =
            some { maxStates := sigS, times := chg.map (·.1),
                   entries := chg.map (fun x => (kindFor tpe hw).entry sigS (encVK (kindFor tpe hw) x)) }) := by
  obtain ⟨seg0, rest, _, hrun⟩ := mt_load_is_store_run c d rm body threads minChunk enc h
  refine ⟨seg0 ++ joinSegs rest, hrun, ?_⟩
  intro hreal tt sigs hspec
  obtain ⟨sigS, chg, h1, h2, _⟩ := C04_store_refines_spec_all c i hbm hbmax d.sigTypes tpe hw hti _ hreal enc hrun tt sigs hspec hsmall
  exact ⟨sigS, chg, h1, h2⟩

/-- **division among parser threads is transparent** (specification level): whatever a history with `split` marks — one
encoder per chunk, appended — denotes, the same operations recorded by ONE thread (the marks removed) denote as well: the
same time table and the same change list for every signal -/
theorem C03_split_transparent (tps : List SigType) (ops : List Spec.Op) (r : List Nat × List (List (Nat × Spec.Value)))
    (h : Spec.run tps ops = some r) : Spec.run tps (Spec.dropSplits ops) = some r :=
  Spec.run_dropSplits tps ops r h

/-- … so a multi-threaded load that succeeds yields, for every signal, exactly what the specification denotes for the
CONCATENATION of the per-chunk operations read as one single-threaded recording (`dropSplits`): the store-level half of
`mt = st`. What remains differential is only that the per-chunk operations are the operations of the whole body (the
lexical hand-over, FMT). -/
theorem C03_mt_loaded_signal_single (c : Codec) (d : Decls) (rm : RealMap) (body : List Nat) (threads minChunk : Nat) (enc : Enc)
    (h : readValues c d rm body (.multi threads minChunk) = .ok enc)
    (i : Nat) (hbm : 1 ≤ c.blockMax) (hbmax : c.blockMax ≤ 2 ^ 28) (tpe : SigType) (hw : ∀ b, tpe = .bitvec b → 1 ≤ b)
    (hti : d.sigTypes[i]? = some tpe)
    (hsmall : ∀ b ∈ (finish c enc).1.blocks, b.data.length < 2 ^ 36) :
    ∃ ops, Spec.runSegs c d.sigTypes ops = some enc ∧
      ((∀ op ∈ ops, ∀ j v r, op = .vcd j v (some r) → r.length = 8) →
       ∀ tt sigs, Spec.run d.sigTypes ops = some (tt, sigs) →
        Spec.run d.sigTypes (Spec.dropSplits ops) = some (tt, sigs) ∧
        ∃ sigS chg, sigs[i]? = some chg ∧
          loadSignal (finish c enc).1 i tpe =
            some { maxStates := sigS, times := chg.map (·.1),
                   entries := chg.map (fun x => (kindFor tpe hw).entry sigS (encVK (kindFor tpe hw) x)) }) := by
  obtain ⟨ops, h1, h2⟩ := C03_mt_loaded_signal c d rm body threads minChunk enc h i hbm hbmax tpe hw hti hsmall
  refine ⟨ops, h1, ?_⟩
  intro hreal tt sigs hspec
  exact ⟨C03_split_transparent _ _ _ hspec, h2 hreal tt sigs hspec⟩

/-- non-vacuity: two chunks, the second opening a new maximum -/
example : Spec.run [.bitvec 1] [.time 0, .vcd 0 [49] none, .split, .time 5, .vcd 0 [48] none] =
    Spec.run [.bitvec 1] (Spec.dropSplits [.time 0, .vcd 0 [49] none, .split, .time 5, .vcd 0 [48] none]) ∧
    (Spec.run [.bitvec 1] [.time 0, .vcd 0 [49] none, .split, .time 5, .vcd 0 [48] none]).isSome = true := by decide

/-! ### composition: multi-threaded = single-threaded, given a clean lexical hand-over -/

theorem evOp_no_split (d : Decls) (rm : RealMap) (e : Ev) (o : Op) (h : evOp d rm e = some o) : o ≠ .split := by
  cases e with
  | time t => simp [evOp] at h; subst h; intro e; cases e
  | value v i =>
    simp only [evOp] at h
    cases hr : resolveId d i with
    | none => rw [hr] at h; cases h
    | some n => rw [hr] at h; simp at h; subst h; intro e; cases e

theorem opsOfEvs_no_split (d : Decls) (rm : RealMap) : ∀ (evs : List Ev) (ops : List Op),
    opsOfEvs d rm evs = some ops → ∀ o ∈ ops, o ≠ .split := by
  intro evs
  induction evs with
  | nil => intro ops h; simp [opsOfEvs] at h; subst h; intro o ho; cases ho
  | cons e r ih =>
    intro ops h
    simp only [opsOfEvs] at h
    cases he : evOp d rm e with
    | none => rw [he] at h; cases h
    | some o1 =>
      rw [he] at h
      cases hr : opsOfEvs d rm r with
      | none => rw [hr] at h; cases h
      | some os =>
        rw [hr] at h
        simp at h; subst h
        intro o ho
        rcases List.mem_cons.mp ho with rfl | ho
        · exact evOp_no_split d rm e _ he
        · exact ih os hr o ho

theorem chunkOps_no_split (d : Decls) (rm : RealMap) (body : List Nat) (ch : Nat × Nat) (ops : List Op)
    (h : chunkOps d rm body ch = some ops) : ∀ o ∈ ops, o ≠ .split := by
  unfold chunkOps at h
  split at h
  · exact opsOfEvs_no_split d rm _ ops h
  · cases h

theorem dropSplits_id (ops : List Op) (h : ∀ o ∈ ops, o ≠ .split) : dropSplits ops = ops := by
  unfold dropSplits
  apply List.filter_eq_self.mpr
  intro o ho
  have := h o ho
  cases o <;> simp_all

theorem dropSplits_append (a b : List Op) : dropSplits (a ++ b) = dropSplits a ++ dropSplits b := by
  simp [dropSplits]

theorem dropSplits_joinSegs : ∀ (segs : List (List Op)), (∀ sg ∈ segs, ∀ o ∈ sg, o ≠ .split) →
    dropSplits (joinSegs segs) = segs.flatten := by
  intro segs
  induction segs with
  | nil => intro _; rfl
  | cons sg r ih =>
    intro h
    simp only [joinSegs, List.flatten_cons]
    have : dropSplits (Op.split :: sg) = dropSplits sg := rfl
    rw [dropSplits_append, this, dropSplits_id sg (h sg (by simp)), ih (fun s hs => h s (List.mem_cons_of_mem _ hs))]

theorem mapM_mem {α β : Type} (f : α → Option β) : ∀ (l : List α) (out : List β), l.mapM f = some out →
    ∀ y ∈ out, ∃ x ∈ l, f x = some y := by
  intro l
  induction l with
  | nil => intro out h y hy; simp at h; subst h; cases hy
  | cons a r ih =>
    intro out h y hy
    simp only [List.mapM_cons] at h
    cases ha : f a with
    | none => rw [ha] at h; simp at h
    | some b =>
      rw [ha] at h
      cases hr : r.mapM f with
      | none => rw [hr] at h; simp at h
      | some bs =>
        rw [hr] at h
        simp at h; subst h
        rcases List.mem_cons.mp hy with rfl | hy
        · exact ⟨a, by simp, ha⟩
        · obtain ⟨x, hx, hfx⟩ := ih bs hr y hy
          exact ⟨x, List.mem_cons_of_mem _ hx, hfx⟩

/-- the lexical hand-over assumption: the operations the chunks record, one after the other, are the operations the
single-threaded parser records for the whole body -/
def HandoverLexical (d : Decls) (rm : RealMap) (body : List Nat) (threads minChunk : Nat) : Prop :=
  ∀ segs evs ops, (determineChunks body.length threads minChunk).mapM (chunkOps d rm body) = some segs →
    tokenSpec body = .ok evs → opsOfEvs d rm (implicitZero evs) = some ops → segs.flatten = ops

/-- **`mt = st`, store level**: if both loads succeed, the lexical hand-over is clean (`HandoverLexical`: the per-chunk
operations are the whole body's operations) and the chunked history is well-formed (every later chunk opens a new
maximum: `Spec.run` denotes it), then both loads report, for every signal, the same change list — the one the
specification denotes — and the time table the specification denotes. Everything below the token level is proved:
encoders, blocks, roll-over, `Encoder::append`, de-duplication, loading. -/
theorem C03_mt_eq_st_given_handover (c : Codec) (d : Decls) (rm : RealMap) (body : List Nat) (threads minChunk : Nat)
    (encM encS : Enc)
    (hM : readValues c d rm body (.multi threads minChunk) = .ok encM)
    (hS : readValues c d rm body .single = .ok encS)
    (hlex : HandoverLexical d rm body threads minChunk)
    (i : Nat) (hbm : 1 ≤ c.blockMax) (hbmax : c.blockMax ≤ 2 ^ 28) (tpe : SigType) (hw : ∀ b, tpe = .bitvec b → 1 ≤ b)
    (hti : d.sigTypes[i]? = some tpe)
    (hsmallM : ∀ b ∈ (finish c encM).1.blocks, b.data.length < 2 ^ 36)
    (hsmallS : ∀ b ∈ (finish c encS).1.blocks, b.data.length < 2 ^ 36) :
    ∃ opsM, Spec.runSegs c d.sigTypes opsM = some encM ∧
      ((∀ op ∈ opsM, ∀ j v r, op = .vcd j v (some r) → r.length = 8) →
       ∀ tt sigs, Spec.run d.sigTypes opsM = some (tt, sigs) →
        ∃ chg sM sS, sigs[i]? = some chg ∧
          loadSignal (finish c encM).1 i tpe =
            some { maxStates := sM, times := chg.map (·.1),
                   entries := chg.map (fun x => (kindFor tpe hw).entry sM (encVK (kindFor tpe hw) x)) } ∧
          loadSignal (finish c encS).1 i tpe =
            some { maxStates := sS, times := chg.map (·.1),
                   entries := chg.map (fun x => (kindFor tpe hw).entry sS (encVK (kindFor tpe hw) x)) }) := by
  obtain ⟨seg0, rest, hmap, hrunM⟩ := C03_mt_load_is_store_run c d rm body threads minChunk encM hM
  obtain ⟨evs, opsS, htok, hops, hrunS⟩ := C01_load_is_store_run c d rm body encS hS
  have hflat : (seg0 :: rest).flatten = opsS := hlex _ evs opsS hmap htok hops
  have hns : ∀ sg ∈ seg0 :: rest, ∀ o ∈ sg, o ≠ Op.split := by
    intro sg hsg
    obtain ⟨ch, _, hch⟩ := mapM_mem _ _ _ hmap sg hsg
    exact chunkOps_no_split d rm body ch sg hch
  have hdrop : dropSplits (seg0 ++ joinSegs rest) = opsS := by
    rw [dropSplits_append, dropSplits_id seg0 (hns seg0 (by simp)),
      dropSplits_joinSegs rest (fun s hs => hns s (List.mem_cons_of_mem _ hs)), ← hflat]
    simp
  refine ⟨seg0 ++ joinSegs rest, hrunM, ?_⟩
  intro hreal tt sigs hden
  have hdenS : Spec.run d.sigTypes opsS = some (tt, sigs) := by
    rw [← hdrop]; exact C03_split_transparent _ _ _ hden
  have hrealS : ∀ op ∈ opsS, ∀ j v r, op = .vcd j v (some r) → r.length = 8 := by
    intro op hop
    rw [← hdrop] at hop
    exact hreal op (List.mem_filter.mp hop).1
  obtain ⟨sM, chgM, h1, h2, _⟩ := C04_store_refines_spec_all c i hbm hbmax d.sigTypes tpe hw hti _ hreal encM hrunM tt sigs hden hsmallM
  obtain ⟨sS, chgS, g1, g2, _⟩ := C04_store_refines_spec_all c i hbm hbmax d.sigTypes tpe hw hti _ hrealS encS
    (C04_runSegs_single c d.sigTypes opsS encS hrunS) tt sigs hdenS hsmallS
  rw [h1] at g1
  cases g1
  exact ⟨chgM, sM, sS, h1, h2, g2⟩


/-! the time table of a recording made by several encoders -/

theorem finishBlock_not_dirty (c : Codec) (x : Enc) : (finishBlock c x).hasNewData = false := by
  unfold finishBlock
  by_cases h : x.hasNewData = true
  · simp [h]
  · simp [h]

theorem finishBlock_idem (c : Codec) (x : Enc) : finishBlock c (finishBlock c x) = finishBlock c x :=
  finishBlock_clean c _ (finishBlock_not_dirty c x)

/-- appending concatenates the time tables (no assumption on the encoders) -/
theorem append_table_gen (c : Codec) (a b e : Enc) (h : append c a b = some e) :
    e.hasNewData = false ∧ (finish c e).2 = (finish c a).2 ++ (finish c b).2 := by
  have da := finishBlock_not_dirty c a
  unfold append at h
  simp only at h
  have hfin : ∀ x : Enc, x.hasNewData = false → (finish c x).2 = x.blocksRev.reverse.flatMap (·.timeTable) := by
    intro x hx
    simp [finish, finishBlock_clean c x hx]
  have hfa : (finish c a).2 = (finishBlock c a).blocksRev.reverse.flatMap (·.timeTable) := rfl
  have hfb : (finish c b).2 = (finishBlock c b).blocksRev.reverse.flatMap (·.timeTable) := rfl
  cases hbr : (finishBlock c b).blocksRev.reverse with
  | nil =>
    rw [hbr] at h
    simp only [Option.some.injEq] at h
    subst h
    refine ⟨da, ?_⟩
    rw [hfin _ da, hfa, hfb, hbr]; simp
  | cons bf rest =>
    rw [hbr] at h
    simp only at h
    cases har : (finishBlock c a).blocksRev with
    | nil =>
      rw [har] at h
      simp only [Option.some.injEq] at h
      subst h
      refine ⟨da, ?_⟩
      rw [hfin _ (by simpa using da), hfa, hfb]
      simp [har, hbr]
    | cons al r2 =>
      rw [har] at h
      simp only at h
      split at h
      · simp only [Option.some.injEq] at h
        subst h
        refine ⟨da, ?_⟩
        rw [hfin _ (by simpa using da), hfa, hfb]
        simp [har, List.flatMap_append, hbr]
      · cases h

theorem appendAll_table (c : Codec) : ∀ (encs : List Enc) (a e : Enc), appendAll c a encs = some e →
    (finish c e).2 = (finish c a).2 ++ encs.flatMap (fun b => (finish c b).2) := by
  intro encs
  induction encs with
  | nil => intro a e h; simp [appendAll] at h; subst h; simp
  | cons b r ih =>
    intro a e h
    simp only [appendAll] at h
    cases hab : append c a b with
    | none => rw [hab] at h; cases h
    | some ab =>
      rw [hab] at h
      rw [ih ab e h, (append_table_gen c a b ab hab).2]
      simp [List.append_assoc]

theorem go_append_newmax (t : Nat) (r : List Nat) : ∀ (l : List Nat) (m : Nat), m < t → (∀ x ∈ l, x < t) →
    strictPrefixMax.go m (l ++ t :: r) = strictPrefixMax.go m l ++ t :: strictPrefixMax.go t r := by
  intro l
  induction l with
  | nil => intro m hm _; simp [strictPrefixMax.go, hm]
  | cons u l ih =>
    intro m hm hl
    simp only [List.cons_append, strictPrefixMax.go]
    have hu : u < t := hl u (by simp)
    have hl' : ∀ x ∈ l, x < t := fun x hx => hl x (List.mem_cons_of_mem _ hx)
    by_cases h : u > m
    · simp only [h, if_true, List.cons_append]; rw [ih u hu hl']
    · simp only [h, if_false]; exact ih m hm hl'

/-- a timestamp greater than everything before it starts the table afresh -/
theorem spm_append_newmax (a : List Nat) (t : Nat) (r : List Nat) (h : ∀ x ∈ a, x < t) :
    strictPrefixMax (a ++ t :: r) = strictPrefixMax a ++ strictPrefixMax (t :: r) := by
  cases a with
  | nil => rfl
  | cons x l =>
    simp only [List.cons_append, strictPrefixMax]
    rw [go_append_newmax t r l x (h x (by simp)) (fun y hy => h y (List.mem_cons_of_mem _ hy))]

theorem go_le_last (l : List Nat) : ∀ (m : Nat), ∀ x ∈ m :: l, x ≤ ((m :: strictPrefixMax.go m l).getLast?).getD 0 := by
  induction l with
  | nil => intro m x hx; simp at hx; subst hx; simp [strictPrefixMax.go]
  | cons u l ih =>
    intro m x hx
    simp only [strictPrefixMax.go]
    by_cases h : u > m
    · simp only [h, if_true]
      have hlast : ((m :: u :: strictPrefixMax.go u l).getLast?) = ((u :: strictPrefixMax.go u l).getLast?) := by
        simp [List.getLast?_cons_cons]
      rw [hlast]
      rcases List.mem_cons.mp hx with rfl | hx
      · have := ih u u (by simp); omega
      · exact ih u x hx
    · simp only [h, if_false]
      rcases List.mem_cons.mp hx with rfl | hx
      · exact ih x x (by simp)
      · rcases List.mem_cons.mp hx with rfl | hx
        · have := ih m m (by simp); omega
        · exact ih m x (List.mem_cons_of_mem _ hx)

/-- the last entry of the table is the largest timestamp seen -/
theorem spm_le_last (a : List Nat) : ∀ x ∈ a, x ≤ ((strictPrefixMax a).getLast?).getD 0 := by
  cases a with
  | nil => intro x hx; cases hx
  | cons m l => simp only [strictPrefixMax]; exact go_le_last l m

/-- in the specification, the first operation of a segment behind a split (when something has been recorded before) is a
timestamp greater than everything before it -/
theorem seg_starts_newmax (types : Array SigType) (s s' : Spec.St) (op : Op) (r : List Op) (pre : List Nat)
    (hpre : pre ≠ []) (ht : s.ttRev.reverse = strictPrefixMax pre) (hnm : s.needNewMax = true) (hns : op ≠ .split)
    (h : foldSpec types (op :: r) s = some s') : ∃ t, op = .time t ∧ ∀ x ∈ pre, x < t := by
  rw [foldSpec_cons] at h
  cases hs : Spec.step types s op with
  | none => rw [hs] at h; cases h
  | some s1 =>
    have hne : s.ttRev ≠ [] := by
      intro e
      rw [e] at ht
      cases pre with
      | nil => exact hpre rfl
      | cons a l => simp [strictPrefixMax] at ht
    cases op with
    | split => exact absurd rfl hns
    | time t =>
      refine ⟨t, rfl, ?_⟩
      simp only [Spec.step] at hs
      cases htr : s.ttRev with
      | nil => exact absurd htr hne
      | cons m rest =>
        rw [htr] at hs
        simp only at hs
        by_cases hgt : t > m
        · intro x hx
          have := spm_le_last pre x hx
          rw [← ht, htr] at this
          simp at this
          omega
        · simp [hgt, hnm] at hs
    | vcd a b c => simp [Spec.step, hnm] at hs
    | raw a b c => simp [Spec.step, hnm] at hs
    | real a b => simp [Spec.step, hnm] at hs

theorem spm_nil_iff (l : List Nat) : strictPrefixMax l = [] ↔ l = [] := by
  cases l <;> simp [strictPrefixMax]

/-- the table of a recording divided into segments is the concatenation of the segments' own tables, provided the
specification accepts the division (every later segment opens a new maximum) -/
theorem segs_spm (types : Array SigType) : ∀ (segs : List (List Op)) (pre : List Nat) (s s' : Spec.St),
    s.ttRev.reverse = strictPrefixMax pre → (∀ sg ∈ segs, NoSplit sg) →
    foldSpec types (joinSegs segs) s = some s' →
    strictPrefixMax (pre ++ segs.flatMap timesOf) =
      strictPrefixMax pre ++ segs.flatMap (fun sg => strictPrefixMax (timesOf sg)) := by
  intro segs
  induction segs with
  | nil => intro pre s s' _ _ _; simp
  | cons sg ss ih =>
    intro pre s s' ht hns h
    have hj : joinSegs (sg :: ss) = .split :: (sg ++ joinSegs ss) := by simp [joinSegs]
    rw [hj, foldSpec_cons] at h
    -- the split step
    have hsplit : ∃ s1, Spec.step types s .split = some s1 ∧ s1.ttRev = s.ttRev ∧ (s.ttRev ≠ [] → s1.needNewMax = true) := by
      simp only [Spec.step]
      by_cases he : s.ttRev.isEmpty = true
      · exact ⟨s, by simp [he], rfl, fun hne => by simp [List.isEmpty_iff] at he; exact absurd he hne⟩
      · exact ⟨{ s with needNewMax := true }, by simp [he], rfl, fun _ => rfl⟩
    obtain ⟨s1, hs1, htt1, hnm1⟩ := hsplit
    rw [hs1] at h
    simp only [Option.bind_some] at h
    rw [foldSpec_append] at h
    cases hsg : foldSpec types sg s1 with
    | none => rw [hsg] at h; cases h
    | some s2 =>
      rw [hsg] at h
      simp only [Option.bind_some] at h
      have ht1 : s1.ttRev.reverse = strictPrefixMax pre := by rw [htt1]; exact ht
      have ht2 := spec_table types sg s1 s2 pre ht1 hsg
      have hrec := ih (pre ++ timesOf sg) s2 s' ht2 (fun x hx => hns x (List.mem_cons_of_mem _ hx)) h
      simp only [List.flatMap_cons]
      rw [← List.append_assoc, hrec]
      -- the segment's own table
      have hseg : strictPrefixMax (pre ++ timesOf sg) = strictPrefixMax pre ++ strictPrefixMax (timesOf sg) := by
        cases hp : pre with
        | nil => simp [strictPrefixMax]
        | cons p0 pr =>
          cases hsgc : sg with
          | nil => simp [timesOf, strictPrefixMax]
          | cons op r =>
            have hpre : pre ≠ [] := by rw [hp]; simp
            have hne : s.ttRev ≠ [] := by
              intro e
              rw [e] at ht
              have := (spm_nil_iff pre).mp ht.symm
              exact hpre this
            rw [hsgc] at hsg
            obtain ⟨t, hop, hlt⟩ := seg_starts_newmax types s1 s2 op r pre hpre ht1 (hnm1 hne)
              (hns sg (by simp) op (by rw [hsgc]; simp)) hsg
            subst hop
            rw [← hp]
            have : timesOf (Op.time t :: r) = t :: timesOf r := rfl
            rw [this]
            exact spm_append_newmax pre t (timesOf r) hlt
      rw [hseg]
      simp [List.append_assoc]

theorem timesOf_append (a b : List Op) : timesOf (a ++ b) = timesOf a ++ timesOf b := by
  induction a with
  | nil => rfl
  | cons o r ih => cases o <;> simp [timesOf, ih]

theorem timesOf_joinSegs (segs : List (List Op)) : timesOf (joinSegs segs) = segs.flatMap timesOf := by
  induction segs with
  | nil => rfl
  | cons sg ss ih =>
    have hj : joinSegs (sg :: ss) = .split :: (sg ++ joinSegs ss) := by simp [joinSegs]
    rw [hj]
    simp [timesOf, timesOf_append, ih]

theorem mapM_tables (c : Codec) (tps : List SigType) : ∀ (segs : List (List Op)) (encs : List Enc),
    segs.mapM (runOps c (newEnc tps)) = some encs →
    encs.flatMap (fun b => (finish c b).2) = segs.flatMap (fun sg => strictPrefixMax (timesOf sg)) := by
  intro segs
  induction segs with
  | nil => intro encs h; simp at h; subst h; rfl
  | cons sg ss ih =>
    intro encs h
    simp only [List.mapM_cons] at h
    cases hb : runOps c (newEnc tps) sg with
    | none => rw [hb] at h; simp at h
    | some b =>
      rw [hb] at h
      cases hr : ss.mapM (runOps c (newEnc tps)) with
      | none => rw [hr] at h; simp at h
      | some bs =>
        rw [hr] at h
        simp at h; subst h
        simp only [List.flatMap_cons]
        rw [ih bs hr, C02_timeTable_exact c tps sg b hb]

/-- **the time table of a recording made by several encoders** (a multi-threaded load): whenever the specification denotes
`(tt, sigs)` for the divided history, the appended encoders' time table is exactly `tt` — the timestamps greater than all
earlier ones, each once, whatever the division and the block size -/
theorem C03_segs_time_table (c : Codec) (tps : List SigType) (seg0 : List Op) (rest : List (List Op))
    (h0 : NoSplit seg0) (hr : ∀ sg ∈ rest, NoSplit sg) (e : Enc)
    (he : Spec.runSegs c tps (seg0 ++ joinSegs rest) = some e)
    (tt : List Nat) (sigs : List (List (Nat × Spec.Value))) (hrun : Spec.run tps (seg0 ++ joinSegs rest) = some (tt, sigs)) :
    (finish c e).2 = tt := by
  unfold Spec.runSegs at he
  rw [splitOps_joinSegs rest hr seg0 h0] at he
  cases hm : (seg0 :: rest).mapM (runOps c (newEnc tps)) with
  | none => rw [hm] at he; cases he
  | some encs =>
    rw [hm] at he
    cases encs with
    | nil => cases he
    | cons e0 er =>
      simp only at he
      have htab := mapM_tables c tps (seg0 :: rest) (e0 :: er) hm
      simp only [List.flatMap_cons] at htab
      rw [appendAll_table c er e0 e he]
      -- the specification's table
      obtain ⟨s, hs, htt, _⟩ := run_fold tps _ tt sigs hrun
      unfold foldSpec at hs
      have hs' : foldSpec tps.toArray (seg0 ++ joinSegs rest) (specInit tps) = some s := hs
      rw [foldSpec_append] at hs'
      cases h1 : foldSpec tps.toArray seg0 (specInit tps) with
      | none => rw [h1] at hs'; cases hs'
      | some s1 =>
        rw [h1] at hs'
        simp only [Option.bind_some] at hs'
        have t1 := spec_table tps.toArray seg0 (specInit tps) s1 [] (by simp [specInit, strictPrefixMax]) h1
        simp only [List.nil_append] at t1
        have t2 := spec_table tps.toArray (joinSegs rest) s1 s (timesOf seg0) t1 hs'
        rw [timesOf_joinSegs] at t2
        have t3 := segs_spm tps.toArray rest (timesOf seg0) s1 s t1 hr hs'
        rw [htt, t2, t3]
        exact htab


/-- **a multi-threaded load reports the specification's time table** (C02 for this loading mode): if the load succeeds and the
specification denotes `(tt, sigs)` for the per-chunk operations, the loaded time table is `tt` -/
theorem C03_mt_time_table (c : Codec) (d : Decls) (rm : RealMap) (body : List Nat) (threads minChunk : Nat) (enc : Enc)
    (h : readValues c d rm body (.multi threads minChunk) = .ok enc) :
    ∃ ops, Spec.runSegs c d.sigTypes ops = some enc ∧
      ∀ tt sigs, Spec.run d.sigTypes ops = some (tt, sigs) → (finish c enc).2 = tt ∧ tt.Pairwise (· < ·) := by
  obtain ⟨seg0, rest, hmap, hrun⟩ := C03_mt_load_is_store_run c d rm body threads minChunk enc h
  have hns : ∀ sg ∈ seg0 :: rest, NoSplit sg := by
    intro sg hsg
    obtain ⟨ch, _, hch⟩ := mapM_mem _ _ _ hmap sg hsg
    exact chunkOps_nosplit d rm body ch sg hch
  refine ⟨seg0 ++ joinSegs rest, hrun, ?_⟩
  intro tt sigs hden
  have htt := C03_segs_time_table c d.sigTypes seg0 rest (hns seg0 (by simp))
    (fun sg hsg => hns sg (List.mem_cons_of_mem _ hsg)) enc hrun tt sigs hden
  refine ⟨htt, ?_⟩
  obtain ⟨s, hs, hts, _⟩ := run_fold d.sigTypes _ tt sigs hden
  have := spec_table d.sigTypes.toArray _ (specInit d.sigTypes) s [] (by simp [specInit, strictPrefixMax]) hs
  rw [hts, this]
  exact spm_pairwise _

/-- a body that is not divided (one worker, or not longer than the minimal chunk size): the only chunk is the whole body -/
theorem determineChunks_single (len threads minChunk : Nat) (h : threads ≤ 1 ∨ len ≤ minChunk) :
    determineChunks len threads minChunk = [(0, len)] := by
  unfold determineChunks
  have hn : max 1 (min threads (divCeil len minChunk)) = 1 := by
    rcases h with h | h
    · have : min threads (divCeil len minChunk) ≤ 1 := Nat.le_trans (Nat.min_le_left _ _) h
      omega
    · have : divCeil len minChunk ≤ 1 := by
        unfold divCeil
        by_cases hm : minChunk = 0
        · subst hm; simp
        · have hpos : 0 < minChunk := Nat.pos_of_ne_zero hm
          have : len + minChunk - 1 < 2 * minChunk := by omega
          have := (Nat.div_lt_iff_lt_mul hpos).mpr this
          omega
      have : min threads (divCeil len minChunk) ≤ 1 := Nat.le_trans (Nat.min_le_right _ _) this
      omega
  simp only [hn]
  simp [divCeil]

/-- … and then the lexical hand-over assumption holds trivially -/
theorem C03_handover_lexical_undivided (d : Decls) (rm : RealMap) (body : List Nat) (threads minChunk : Nat)
    (h : threads ≤ 1 ∨ body.length ≤ minChunk) : HandoverLexical d rm body threads minChunk := by
  intro segs evs ops hmap htok hops
  rw [determineChunks_single _ _ _ h] at hmap
  simp only [List.mapM_cons, List.mapM_nil] at hmap
  cases hc : chunkOps d rm body (0, body.length) with
  | none => rw [hc] at hmap; simp at hmap
  | some o =>
    rw [hc] at hmap
    simp at hmap
    subst hmap
    unfold chunkOps at hc
    simp only [List.drop_zero] at hc
    rw [parseBody_stop_irrelevant body (body.length - 1) false (by omega), C01_lexing, htok] at hc
    simp only [if_true] at hc
    rw [hops] at hc
    cases hc
    simp


/-- **`mt = st` for every body that is not divided** (one worker thread, or a body not longer than the minimal chunk size —
16 KiB in production): if both loads succeed, they report the same change list for every signal; no assumption is left -/
theorem C03_mt_eq_st_undivided (c : Codec) (d : Decls) (rm : RealMap) (body : List Nat) (threads minChunk : Nat)
    (hund : threads ≤ 1 ∨ body.length ≤ minChunk) (encM encS : Enc)
    (hM : readValues c d rm body (.multi threads minChunk) = .ok encM)
    (hS : readValues c d rm body .single = .ok encS)
    (i : Nat) (hbm : 1 ≤ c.blockMax) (hbmax : c.blockMax ≤ 2 ^ 28) (tpe : SigType) (hw : ∀ b, tpe = .bitvec b → 1 ≤ b)
    (hti : d.sigTypes[i]? = some tpe)
    (hsmallM : ∀ b ∈ (finish c encM).1.blocks, b.data.length < 2 ^ 36)
    (hsmallS : ∀ b ∈ (finish c encS).1.blocks, b.data.length < 2 ^ 36) :
    ∃ opsM, Spec.runSegs c d.sigTypes opsM = some encM ∧
      ((∀ op ∈ opsM, ∀ j v r, op = .vcd j v (some r) → r.length = 8) →
       ∀ tt sigs, Spec.run d.sigTypes opsM = some (tt, sigs) →
        ∃ chg sM sS, sigs[i]? = some chg ∧
          loadSignal (finish c encM).1 i tpe =
            some { maxStates := sM, times := chg.map (·.1),
                   entries := chg.map (fun x => (kindFor tpe hw).entry sM (encVK (kindFor tpe hw) x)) } ∧
          loadSignal (finish c encS).1 i tpe =
            some { maxStates := sS, times := chg.map (·.1),
                   entries := chg.map (fun x => (kindFor tpe hw).entry sS (encVK (kindFor tpe hw) x)) }) :=
  C03_mt_eq_st_given_handover c d rm body threads minChunk encM encS hM hS
    (C03_handover_lexical_undivided d rm body threads minChunk hund) i hbm hbmax tpe hw hti hsmallM hsmallS

end Wellen.VcdBody
