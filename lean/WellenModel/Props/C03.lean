import WellenModel.Proofs.VcdStop
import WellenModel.Proofs.TimeTable
import WellenModel.Proofs.Mt
import WellenModel.Props.C04
import WellenModel.Props.C01
import WellenModel.Proofs.SplitFree
import WellenModel.Proofs.Handover
/-!
# C03 — multi-threaded VCD loading equals single-threaded loading

In the model the schedule quantifier disappears: each chunk is parsed by a pure function of the
immutable input (`readStream`), the results are collected in chunk order (rayon's ordered `collect`,
trusted) and appended sequentially. What is proved here:
* `C03_chunks`: the chunk arithmetic yields at least one chunk, chunks start at multiples of the chunk
  size beginning with 0, and together they cover the body;
* `C03_chunk_events_prefix`: a chunk (stop position set) emits a prefix of the events the unbounded
  parser emits from the same start — the hand-over exit only ever cuts the stream at a timestamp;
* `C03_worker_reproduces_segment`: a worker that resynchronised at a line where the whole-body parser is in the same lexical
  state emits a prefix of what the whole-body parser emits from there — it never invents, reorders or alters an event
  (`Proofs/Handover.lean`: the parser without stop position ignores positions and earlier events, `step_lift`);
* `C03_append_table`: appending encoders concatenates their time tables (no entry lost or invented).
* `C03_mt_load_is_store_run`: a multi-threaded load that succeeds IS the store run with one encoder per chunk
  (`Spec.runSegs`) on the operations each chunk's events denote; with `C04_store_refines_spec_all` the loaded signals are
  therefore exactly what the abstract specification says about `ops(chunk 0) ++ split ++ ops(chunk 1) ++ …`
  (`C03_mt_loaded_signal`).
* `C03_split_transparent` / `C03_mt_loaded_signal_single`: the `split` marks are transparent for the specification, so the
  loaded signals are what ONE thread recording the concatenated per-chunk operations would have produced.
* `C03_mt_eq_st_given_handover`: the composition — if both loads succeed and the per-chunk operations are the whole body's
  operations (`HandoverLexical`, the one assumption), both loads report the same change list for every signal.
What is NOT proved is the purely lexical last step of `mt = st` for hand-over-safe bodies — that those per-chunk
operations are the operations of the whole body; it is checked differentially against the Lean model of the chunked
parser on every boundary alignment (see evidence). For bodies that are not hand-over safe the property is false for
the current code (known finding FMT).
-/
namespace Wellen.VcdBody
open Wellen.Bits Wellen.Store Wellen.Spec

theorem C03_chunks (bodyLen threads minChunk : Nat) :
    let cs := determineChunks bodyLen threads minChunk
    cs ≠ [] ∧ (∀ i, (h : i < cs.length) → cs[i] = (i * (cs[i]).2, (cs[i]).2)) ∧
    bodyLen ≤ cs.length * (divCeil bodyLen cs.length) := by
  simp only [determineChunks]
  refine ⟨?_, ?_, ?_⟩
  · have : 0 < max 1 (min threads (divCeil bodyLen minChunk)) := by omega
    intro h
    have h2 := congrArg List.length h
    simp at h2
  · intro i h
    simp
  · simp only [List.length_map, List.length_range]
    have hn : 0 < max 1 (min threads (divCeil bodyLen minChunk)) := by omega
    generalize max 1 (min threads (divCeil bodyLen minChunk)) = n at hn
    unfold divCeil
    have h1 := Nat.div_add_mod (bodyLen + n - 1) n
    have h2 := Nat.mod_lt (bodyLen + n - 1) hn
    have : n * ((bodyLen + n - 1) / n) = (bodyLen + n - 1) - (bodyLen + n - 1) % n := by omega
    rw [this]; omega

/-- the hand-over exit only truncates: a chunk's events are a prefix of the unbounded parse's events -/
theorem run_stop_prefix (s : Nat) (bs : List Nat) : ∀ (m : M),
    evsOf (run (some s) m bs) <+: evsOf (run none m bs) := by
  induction bs with
  | nil => intro m; exact List.prefix_refl _
  | cons b bs ih =>
    intro m
    simp only [run]
    -- compare one step with and without the stop position
    rcases step_shape (some s) m b with ⟨m1, h1, _, _⟩ | h1 | h1
    · -- no exit: the step without stop is the same step
      have h2 : step none m b = .cont m1 := by
        unfold step at h1 ⊢
        cases hst : m.st <;> simp only [hst] at h1 ⊢
        · exact h1
        · by_cases hw : isWs b = true
          · simp only [hw, ↓reduceIte] at h1 ⊢
            by_cases he : m.first.isEmpty = true
            · simp only [he, ↓reduceIte] at h1 ⊢; exact h1
            · simp only [he, Bool.false_eq_true, ↓reduceIte] at h1 ⊢
              cases hp : parseFirst m.first.reverse <;> simp only [hp] at h1 ⊢
              · by_cases hc : decide (m.pos - m.first.reverse.length - 1 > s) = true
                · simp only [hc, ↓reduceIte] at h1; cases h1
                · simp only [hc, Bool.false_eq_true, ↓reduceIte] at h1 ⊢; exact h1
              all_goals exact h1
          · simp only [hw, Bool.false_eq_true, ↓reduceIte] at h1 ⊢; exact h1
        · exact h1
        · exact h1
      rw [h1, h2]; exact ih m1
    · rw [h1]
      -- exit: the events so far are a prefix of whatever the unbounded parse produces
      have := run_evs_prefix none (b :: bs) m
      simpa [run, evsOf] using this
    · -- error is independent of the stop position
      have h2 : step none m b = .error m.evs.reverse := by
        unfold step at h1 ⊢
        cases hst : m.st <;> simp only [hst] at h1 ⊢
        · split at h1 <;> cases h1
        · by_cases hw : isWs b = true
          · simp only [hw, ↓reduceIte] at h1 ⊢
            by_cases he : m.first.isEmpty = true
            · simp only [he, ↓reduceIte] at h1; cases h1
            · simp only [he, Bool.false_eq_true, ↓reduceIte] at h1 ⊢
              cases hp : parseFirst m.first.reverse <;> simp only [hp] at h1 ⊢
              · by_cases hc : decide (m.pos - m.first.reverse.length - 1 > s) = true
                · simp only [hc, ↓reduceIte] at h1; cases h1
                · simp only [hc, Bool.false_eq_true, ↓reduceIte] at h1; cases h1
              all_goals first | cases h1 | rfl
          · simp only [hw, Bool.false_eq_true, ↓reduceIte] at h1; cases h1
        · split at h1
          · split at h1 <;> cases h1
          · cases h1
        · split at h1
          · split at h1
            · cases h1
            · split at h1 <;> cases h1
          · cases h1
      rw [h1, h2]; exact List.prefix_refl _

theorem C03_chunk_events_prefix (s : Nat) (bs : List Nat) (nl : Bool) :
    evsOf (parseBody (some s) bs nl) <+: evsOf (parseBody none bs nl) :=
  run_stop_prefix s bs (initM nl)

/-- **a worker reproduces a segment of the whole parse**: let the parser of the whole body (no stop position) stand, after
the events `E`, at the beginning of a line in the state `lift E k c` — `c` being the state of a worker that has just
resynchronised at that line (same lexical state, no events yet, its own position count). Then the worker's events are a
prefix of the events the whole parser emits from there on: a worker never invents, reorders or alters an event, it only
stops early (at its hand-over timestamp) -/
theorem C03_worker_reproduces_segment (E : List Ev) (k s : Nat) (c : M) (rest : List Nat) :
    ∃ more, evsOf (run none (lift E k c) rest) = E.reverse ++ evsOf (run (some s) c rest) ++ more := by
  rw [run_lift]
  obtain ⟨more, hm⟩ := run_stop_prefix s rest c
  refine ⟨more, ?_⟩
  cases hr : run none c rest with
  | ok e => rw [hr] at hm; simp only [liftOut, evsOf] at hm ⊢; rw [← hm]; simp
  | err e => rw [hr] at hm; simp only [liftOut, evsOf] at hm ⊢; rw [← hm]; simp


/-- appending concatenates the time tables of two finished encoders -/
theorem C03_append_table (c : Codec) (a b e : Enc) (ha : Inv a) (hb : Inv b)
    (h : append c a b = some e) : (finish c e).2 = (finish c a).2 ++ (finish c b).2 := by
  have hfa : ∀ x : Enc, Inv x → ((finishBlock c x).blocksRev.reverse.flatMap (·.timeTable)) = table x ∧
      (finishBlock c x).hasNewData = false := by
    intro x hx
    by_cases hd : x.hasNewData = true
    · exact ⟨finishBlock_dirty c x hd, by simp [finishBlock, hd]⟩
    · have hd' : x.hasNewData = false := by simpa using hd
      rw [finishBlock_clean c x hd']
      have : x.timeRev = [] := by
        by_cases ht : x.timeRev = []
        · exact ht
        · have := hx.dirty ht; rw [hd'] at this; cases this
      exact ⟨by simp [table, this], hd'⟩
  obtain ⟨ta, da⟩ := hfa a ha
  obtain ⟨tb, db⟩ := hfa b hb
  rw [finish_table c a ha, finish_table c b hb, ← ta, ← tb]
  unfold append at h
  simp only at h
  have hfin : ∀ x : Enc, x.hasNewData = false → (finish c x).2 = x.blocksRev.reverse.flatMap (·.timeTable) := by
    intro x hx
    simp [finish, finishBlock_clean c x hx]
  cases hbr : (finishBlock c b).blocksRev.reverse with
  | nil =>
    rw [hbr] at h
    simp only [Option.some.injEq] at h
    subst h
    rw [hfin _ da]
    simp
  | cons bf rest =>
    rw [hbr] at h
    simp only at h
    cases har : (finishBlock c a).blocksRev with
    | nil =>
      rw [har] at h
      simp only [Option.some.injEq] at h
      subst h
      rw [hfin _ (by simpa using da)]
      simp [har, hbr]
    | cons al r2 =>
      rw [har] at h
      simp only at h
      split at h
      · simp only [Option.some.injEq] at h
        subst h
        rw [hfin _ (by simpa using da)]
        simp [har, List.flatMap_append, hbr]
      · cases h

example : determineChunks 100 4 16 = [(0, 25), (25, 25), (50, 25), (75, 25)] := by decide


/-- a multi-threaded load that succeeds is the store run (`Spec.runSegs`: one encoder per chunk, appended in order) on the
per-chunk operations -/
theorem C03_mt_load_is_store_run (c : Codec) (d : Decls) (rm : RealMap) (body : List Nat) (threads minChunk : Nat) (enc : Enc)
    (h : readValues c d rm body (.multi threads minChunk) = .ok enc) :
    ∃ seg0 rest, (determineChunks body.length threads minChunk).mapM (chunkOps d rm body) = some (seg0 :: rest) ∧
      Spec.runSegs c d.sigTypes (seg0 ++ joinSegs rest) = some enc :=
  mt_load_is_store_run c d rm body threads minChunk enc h

/-- … hence every signal it loads is what the abstract specification denotes for those operations (any signal type) -/
theorem C03_mt_loaded_signal (c : Codec) (d : Decls) (rm : RealMap) (body : List Nat) (threads minChunk : Nat) (enc : Enc)
    (h : readValues c d rm body (.multi threads minChunk) = .ok enc)
    (i : Nat) (hbm : 1 ≤ c.blockMax) (hbmax : c.blockMax ≤ 2 ^ 28) (tpe : SigType) (hw : ∀ b, tpe = .bitvec b → 1 ≤ b)
    (hti : d.sigTypes[i]? = some tpe)
    (hsmall : ∀ b ∈ (finish c enc).1.blocks, b.data.length < 2 ^ 36) :
    ∃ ops, Spec.runSegs c d.sigTypes ops = some enc ∧
      ((∀ op ∈ ops, ∀ j v r, op = .vcd j v (some r) → r.length = 8) →
       ∀ tt sigs, Spec.run d.sigTypes ops = some (tt, sigs) →
        ∃ sigS chg, sigs[i]? = some chg ∧
          loadSignal (finish c enc).1 i tpe =
            some { maxStates := sigS, times := chg.map (·.1),
                   entries := chg.map (fun x => (kindFor tpe hw).entry sigS (encVK (kindFor tpe hw) x)) }) := by
  obtain ⟨seg0, rest, _, hrun⟩ := mt_load_is_store_run c d rm body threads minChunk enc h
  refine ⟨seg0 ++ joinSegs rest, hrun, ?_⟩
  intro hreal tt sigs hspec
  obtain ⟨sigS, chg, h1, h2, _⟩ := C04_store_refines_spec_all c i hbm hbmax d.sigTypes tpe hw hti _ hreal enc hrun tt sigs hspec hsmall
  exact ⟨sigS, chg, h1, h2⟩

/-- **division among parser threads is transparent** (specification level): whatever a history with `split` marks — one
encoder per chunk, appended — denotes, the same operations recorded by ONE thread (the marks removed) denote as well: the
same time table and the same change list for every signal -/
theorem C03_split_transparent (tps : List SigType) (ops : List Spec.Op) (r : List Nat × List (List (Nat × Spec.Value)))
    (h : Spec.run tps ops = some r) : Spec.run tps (Spec.dropSplits ops) = some r :=
  Spec.run_dropSplits tps ops r h

/-- … so a multi-threaded load that succeeds yields, for every signal, exactly what the specification denotes for the
CONCATENATION of the per-chunk operations read as one single-threaded recording (`dropSplits`): the store-level half of
`mt = st`. What remains differential is only that the per-chunk operations are the operations of the whole body (the
lexical hand-over, FMT). -/
theorem C03_mt_loaded_signal_single (c : Codec) (d : Decls) (rm : RealMap) (body : List Nat) (threads minChunk : Nat) (enc : Enc)
    (h : readValues c d rm body (.multi threads minChunk) = .ok enc)
    (i : Nat) (hbm : 1 ≤ c.blockMax) (hbmax : c.blockMax ≤ 2 ^ 28) (tpe : SigType) (hw : ∀ b, tpe = .bitvec b → 1 ≤ b)
    (hti : d.sigTypes[i]? = some tpe)
    (hsmall : ∀ b ∈ (finish c enc).1.blocks, b.data.length < 2 ^ 36) :
    ∃ ops, Spec.runSegs c d.sigTypes ops = some enc ∧
      ((∀ op ∈ ops, ∀ j v r, op = .vcd j v (some r) → r.length = 8) →
       ∀ tt sigs, Spec.run d.sigTypes ops = some (tt, sigs) →
        Spec.run d.sigTypes (Spec.dropSplits ops) = some (tt, sigs) ∧
        ∃ sigS chg, sigs[i]? = some chg ∧
          loadSignal (finish c enc).1 i tpe =
            some { maxStates := sigS, times := chg.map (·.1),
                   entries := chg.map (fun x => (kindFor tpe hw).entry sigS (encVK (kindFor tpe hw) x)) }) := by
  obtain ⟨ops, h1, h2⟩ := C03_mt_loaded_signal c d rm body threads minChunk enc h i hbm hbmax tpe hw hti hsmall
  refine ⟨ops, h1, ?_⟩
  intro hreal tt sigs hspec
  exact ⟨C03_split_transparent _ _ _ hspec, h2 hreal tt sigs hspec⟩

/-- non-vacuity: two chunks, the second opening a new maximum -/
example : Spec.run [.bitvec 1] [.time 0, .vcd 0 [49] none, .split, .time 5, .vcd 0 [48] none] =
    Spec.run [.bitvec 1] (Spec.dropSplits [.time 0, .vcd 0 [49] none, .split, .time 5, .vcd 0 [48] none]) ∧
    (Spec.run [.bitvec 1] [.time 0, .vcd 0 [49] none, .split, .time 5, .vcd 0 [48] none]).isSome = true := by decide

/-! ### composition: multi-threaded = single-threaded, given a clean lexical hand-over -/

theorem evOp_no_split (d : Decls) (rm : RealMap) (e : Ev) (o : Op) (h : evOp d rm e = some o) : o ≠ .split := by
  cases e with
  | time t => simp [evOp] at h; subst h; intro e; cases e
  | value v i =>
    simp only [evOp] at h
    cases hr : resolveId d i with
    | none => rw [hr] at h; cases h
    | some n => rw [hr] at h; simp at h; subst h; intro e; cases e

theorem opsOfEvs_no_split (d : Decls) (rm : RealMap) : ∀ (evs : List Ev) (ops : List Op),
    opsOfEvs d rm evs = some ops → ∀ o ∈ ops, o ≠ .split := by
  intro evs
  induction evs with
  | nil => intro ops h; simp [opsOfEvs] at h; subst h; intro o ho; cases ho
  | cons e r ih =>
    intro ops h
    simp only [opsOfEvs] at h
    cases he : evOp d rm e with
    | none => rw [he] at h; cases h
    | some o1 =>
      rw [he] at h
      cases hr : opsOfEvs d rm r with
      | none => rw [hr] at h; cases h
      | some os =>
        rw [hr] at h
        simp at h; subst h
        intro o ho
        rcases List.mem_cons.mp ho with rfl | ho
        · exact evOp_no_split d rm e _ he
        · exact ih os hr o ho

theorem chunkOps_no_split (d : Decls) (rm : RealMap) (body : List Nat) (ch : Nat × Nat) (ops : List Op)
    (h : chunkOps d rm body ch = some ops) : ∀ o ∈ ops, o ≠ .split := by
  unfold chunkOps at h
  split at h
  · exact opsOfEvs_no_split d rm _ ops h
  · cases h

theorem dropSplits_id (ops : List Op) (h : ∀ o ∈ ops, o ≠ .split) : dropSplits ops = ops := by
  unfold dropSplits
  apply List.filter_eq_self.mpr
  intro o ho
  have := h o ho
  cases o <;> simp_all

theorem dropSplits_append (a b : List Op) : dropSplits (a ++ b) = dropSplits a ++ dropSplits b := by
  simp [dropSplits]

theorem dropSplits_joinSegs : ∀ (segs : List (List Op)), (∀ sg ∈ segs, ∀ o ∈ sg, o ≠ .split) →
    dropSplits (joinSegs segs) = segs.flatten := by
  intro segs
  induction segs with
  | nil => intro _; rfl
  | cons sg r ih =>
    intro h
    simp only [joinSegs, List.flatten_cons]
    have : dropSplits (Op.split :: sg) = dropSplits sg := rfl
    rw [dropSplits_append, this, dropSplits_id sg (h sg (by simp)), ih (fun s hs => h s (List.mem_cons_of_mem _ hs))]

theorem mapM_mem {α β : Type} (f : α → Option β) : ∀ (l : List α) (out : List β), l.mapM f = some out →
    ∀ y ∈ out, ∃ x ∈ l, f x = some y := by
  intro l
  induction l with
  | nil => intro out h y hy; simp at h; subst h; cases hy
  | cons a r ih =>
    intro out h y hy
    simp only [List.mapM_cons] at h
    cases ha : f a with
    | none => rw [ha] at h; simp at h
    | some b =>
      rw [ha] at h
      cases hr : r.mapM f with
      | none => rw [hr] at h; simp at h
      | some bs =>
        rw [hr] at h
        simp at h; subst h
        rcases List.mem_cons.mp hy with rfl | hy
        · exact ⟨a, by simp, ha⟩
        · obtain ⟨x, hx, hfx⟩ := ih bs hr y hy
          exact ⟨x, List.mem_cons_of_mem _ hx, hfx⟩

/-- the lexical hand-over assumption: the operations the chunks record, one after the other, are the operations the
single-threaded parser records for the whole body -/
def HandoverLexical (d : Decls) (rm : RealMap) (body : List Nat) (threads minChunk : Nat) : Prop :=
  ∀ segs evs ops, (determineChunks body.length threads minChunk).mapM (chunkOps d rm body) = some segs →
    tokenSpec body = .ok evs → opsOfEvs d rm (implicitZero evs) = some ops → segs.flatten = ops

/-- **`mt = st`, store level**: if both loads succeed, the lexical hand-over is clean (`HandoverLexical`: the per-chunk
operations are the whole body's operations) and the chunked history is well-formed (every later chunk opens a new
maximum: `Spec.run` denotes it), then both loads report, for every signal, the same change list — the one the
specification denotes — and the time table the specification denotes. Everything below the token level is proved:
encoders, blocks, roll-over, `Encoder::append`, de-duplication, loading. -/
theorem C03_mt_eq_st_given_handover (c : Codec) (d : Decls) (rm : RealMap) (body : List Nat) (threads minChunk : Nat)
    (encM encS : Enc)
    (hM : readValues c d rm body (.multi threads minChunk) = .ok encM)
    (hS : readValues c d rm body .single = .ok encS)
    (hlex : HandoverLexical d rm body threads minChunk)
    (i : Nat) (hbm : 1 ≤ c.blockMax) (hbmax : c.blockMax ≤ 2 ^ 28) (tpe : SigType) (hw : ∀ b, tpe = .bitvec b → 1 ≤ b)
    (hti : d.sigTypes[i]? = some tpe)
    (hsmallM : ∀ b ∈ (finish c encM).1.blocks, b.data.length < 2 ^ 36)
    (hsmallS : ∀ b ∈ (finish c encS).1.blocks, b.data.length < 2 ^ 36) :
    ∃ opsM, Spec.runSegs c d.sigTypes opsM = some encM ∧
      ((∀ op ∈ opsM, ∀ j v r, op = .vcd j v (some r) → r.length = 8) →
       ∀ tt sigs, Spec.run d.sigTypes opsM = some (tt, sigs) →
        ∃ chg sM sS, sigs[i]? = some chg ∧
          loadSignal (finish c encM).1 i tpe =
            some { maxStates := sM, times := chg.map (·.1),
                   entries := chg.map (fun x => (kindFor tpe hw).entry sM (encVK (kindFor tpe hw) x)) } ∧
          loadSignal (finish c encS).1 i tpe =
            some { maxStates := sS, times := chg.map (·.1),
                   entries := chg.map (fun x => (kindFor tpe hw).entry sS (encVK (kindFor tpe hw) x)) }) := by
  obtain ⟨seg0, rest, hmap, hrunM⟩ := C03_mt_load_is_store_run c d rm body threads minChunk encM hM
  obtain ⟨evs, opsS, htok, hops, hrunS⟩ := C01_load_is_store_run c d rm body encS hS
  have hflat : (seg0 :: rest).flatten = opsS := hlex _ evs opsS hmap htok hops
  have hns : ∀ sg ∈ seg0 :: rest, ∀ o ∈ sg, o ≠ Op.split := by
    intro sg hsg
    obtain ⟨ch, _, hch⟩ := mapM_mem _ _ _ hmap sg hsg
    exact chunkOps_no_split d rm body ch sg hch
  have hdrop : dropSplits (seg0 ++ joinSegs rest) = opsS := by
    rw [dropSplits_append, dropSplits_id seg0 (hns seg0 (by simp)),
      dropSplits_joinSegs rest (fun s hs => hns s (List.mem_cons_of_mem _ hs)), ← hflat]
    simp
  refine ⟨seg0 ++ joinSegs rest, hrunM, ?_⟩
  intro hreal tt sigs hden
  have hdenS : Spec.run d.sigTypes opsS = some (tt, sigs) := by
    rw [← hdrop]; exact C03_split_transparent _ _ _ hden
  have hrealS : ∀ op ∈ opsS, ∀ j v r, op = .vcd j v (some r) → r.length = 8 := by
    intro op hop
    rw [← hdrop] at hop
    exact hreal op (List.mem_filter.mp hop).1
  obtain ⟨sM, chgM, h1, h2, _⟩ := C04_store_refines_spec_all c i hbm hbmax d.sigTypes tpe hw hti _ hreal encM hrunM tt sigs hden hsmallM
  obtain ⟨sS, chgS, g1, g2, _⟩ := C04_store_refines_spec_all c i hbm hbmax d.sigTypes tpe hw hti _ hrealS encS
    (C04_runSegs_single c d.sigTypes opsS encS hrunS) tt sigs hdenS hsmallS
  rw [h1] at g1
  cases g1
  exact ⟨chgM, sM, sS, h1, h2, g2⟩


end Wellen.VcdBody
