import WellenModel.Proofs.Load
/-!
# C07 — signal loading is independent of how it is requested

Model: `Model/Load.lean` (SignalSource::load_signals, Waveform load / unload / get). The back end is
a parameter with the contract "one signal per requested id, in request order" (wavemem `iter` /
rayon's ordered `par_iter`; FST: the writer of an id sees only that id's callbacks).
-/
namespace Wellen.Load

variable {σ : Type}

/-- `load_signals` = each distinct requested id, once, in increasing order, with a content that is
a function of the id alone (so: independent of the other ids, of order, of duplicates) -/
theorem C07_load_signals (src : Source σ) (ids : List Nat) :
    src.loadSignals ids = (sortDedup ids).map fun id => (id, src.content id) :=
  loadSignals_spec src ids

theorem C07_one_entry_per_id (ids : List Nat) :
    (sortDedup ids).Pairwise (· < ·) ∧ ∀ y, y ∈ sortDedup ids ↔ y ∈ ids :=
  ⟨sortDedup_sorted ids, fun y => mem_sortDedup y ids⟩

/-- for every sequence of load / load_multi_threaded / unload calls, `get_signal id` is `Some` of the
id's content exactly when the id was loaded and not unloaded since: loading further signals never
changes those already loaded, re-loading gives the same content -/
theorem C07_waveform_refines_set (src : Source σ) (ops : List Op) (i : Nat) :
    (ops.foldl (stepW src) (fun _ => none)) i =
      if (ops.foldl stepS (fun _ => false)) i then some (src.content i) else none :=
  run_refines src ops (fun _ => none) (fun _ => false) (fun _ => rfl) i

/-- non-vacuity -/
example : sortDedup [5, 2, 5, 9, 2] = [2, 5, 9] := by decide

end Wellen.Load
