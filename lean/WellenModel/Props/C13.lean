import WellenModel.Proofs.Slice
import WellenModel.Proofs.EntryRoundtrip
/-!
# C13 — a variable aliasing a sub-range of a vector reports exactly that sub-range

Model: `Model/Slice.lean` (signals.rs slice_signal / slice_bit_vector / slice_n_states /
BitVectorBuilder after the fixes F11, F12, F14). Bit positions of a packed value are addressed by
`symAt` — the same right-aligned big-endian addressing as the GHW bit assembler (`get_data_index`).
* `C13_slice_symbols`: for every kind, parent width and range, the bytes produced by
  `slice_n_states` render as the parent's symbols at bit positions `msb … lsb`;
* `C13_minimal_repack`: reducing a slice to a narrower kind keeps its symbols;
* `C13_entry`: the entry stored for the slice decodes to those symbols (entry round trip of C04),
  in release and debug builds alike (the model has no build-dependent branch left after F11).
The alias range arithmetic of the GHW loader (`register_bit_vec`, fixed F13) and whole GHW files are
checked under C11.
-/
namespace Wellen.Slice
open Wellen.Bits Wellen.Store

theorem C13_slice_symbols (s : States) (data : List Nat) (msb lsb : Nat) (out : List Nat)
    (h : sliceNStates s data msb lsb = some out) :
    toSyms s out (msb - lsb + 1) = (List.range (msb - lsb + 1)).reverse.map fun k => symAt s data (lsb + k) :=
  sliceNStates_spec s data msb lsb out h

theorem C13_minimal_repack (inS outS : States) (data : List Nat) (bits : Nat)
    (hfit : ∀ i, i < bits → symAt inS data i < 2 ^ outS.bits) :
    toSyms outS (repack inS outS data 0 bits 0) bits = (List.range bits).reverse.map fun k => symAt inS data (0 + k) :=
  compress_spec inS outS data bits hfit

/-- the entry built for a slice of ≥ 2 bits reads back as the slice's symbols, whatever the widest kind of the parent -/
theorem C13_entry (maxS loc : States) (syms : List Nat) (hbits : 2 ≤ syms.length)
    (hv : ∀ v ∈ syms, v < 2 ^ loc.bits) (hle : loc.toNat ≤ maxS.toNat) :
    ∃ d, decodeEntry maxS syms.length (getLenAndMeta maxS syms.length).2
           (alignEntry maxS loc syms.length (writeNState loc syms none)) = some (loc, d) ∧
         toSyms loc d syms.length = syms :=
  entry_roundtrip maxS loc syms hbits hv hle

/-- non-vacuity: bits [6:2] of the 9-bit two-state value 1_0110_0101 -/
example : sliceNStates .two [1, 0x65] 6 2 = some [0b11001] := by decide
example : (List.range 5).reverse.map (fun k => symAt .two [1, 0x65] (2 + k)) = [1, 1, 0, 0, 1] := by decide

end Wellen.Slice
