import WellenModel.Proofs.Slice
import WellenModel.Proofs.EntryRoundtrip
import WellenModel.Model.Ghw
/-!
# C13 — a variable aliasing a sub-range of a vector reports exactly that sub-range

Model: `Model/Slice.lean` (signals.rs slice_signal / slice_bit_vector / slice_n_states /
BitVectorBuilder after the fixes F11, F12, F14). Bit positions of a packed value are addressed by
`symAt` — the same right-aligned big-endian addressing as the GHW bit assembler (`get_data_index`).
* `C13_slice_symbols`: for every kind, parent width and range, the bytes produced by
  `slice_n_states` render as the parent's symbols at bit positions `msb … lsb`;
* `C13_minimal_repack`: reducing a slice to a narrower kind keeps its symbols;
* `C13_entry`: the entry stored for the slice decodes to those symbols (entry round trip of C04),
  in release and debug builds alike (the model has no build-dependent branch left after F11).
* `C13_alias_exact` / `C13_alias_range` (GHW loader, `find_or_add_alias` / `register_bit_vec` after fix F13): a sub-range
  of a declared vector gets either a fresh signal reference, or the reference of an alias registered for EXACTLY the same
  bit offsets `[v.max − min : v.max − max]` of the same vector — never that of a wider, narrower or shifted one.
Whole GHW files with several sub-ranges per parent are compared three-way (real loader, byte-level model, denotation).
-/
namespace Wellen.Slice
open Wellen.Bits Wellen.Store

theorem C13_slice_symbols (s : States) (data : List Nat) (msb lsb : Nat) (out : List Nat)
    (h : sliceNStates s data msb lsb = some out) :
    toSyms s out (msb - lsb + 1) = (List.range (msb - lsb + 1)).reverse.map fun k => symAt s data (lsb + k) :=
  sliceNStates_spec s data msb lsb out h

theorem C13_minimal_repack (inS outS : States) (data : List Nat) (bits : Nat)
    (hfit : ∀ i, i < bits → symAt inS data i < 2 ^ outS.bits) :
    toSyms outS (repack inS outS data 0 bits 0) bits = (List.range bits).reverse.map fun k => symAt inS data (0 + k) :=
  compress_spec inS outS data bits hfit

/-- the entry built for a slice of ≥ 2 bits reads back as the slice's symbols, whatever the widest kind of the parent -/
theorem C13_entry (maxS loc : States) (syms : List Nat) (hbits : 2 ≤ syms.length)
    (hv : ∀ v ∈ syms, v < 2 ^ loc.bits) (hle : loc.toNat ≤ maxS.toNat) :
    ∃ d, decodeEntry maxS syms.length (getLenAndMeta maxS syms.length).2
           (alignEntry maxS loc syms.length (writeNState loc syms none)) = some (loc, d) ∧
         toSyms loc d syms.length = syms :=
  entry_roundtrip maxS loc syms hbits hv hle

/-- non-vacuity: bits [6:2] of the 9-bit two-state value 1_0110_0101 -/
example : sliceNStates .two [1, 0x65] 6 2 = some [0b11001] := by decide
example : (List.range 5).reverse.map (fun k => symAt .two [1, 0x65] (2 + k)) = [1, 1, 0, 0, 1] := by decide

end Wellen.Slice

namespace Wellen.Ghw

/-- what a lookup in the alias chain can return: either a **fresh** reference (a new alias with exactly the requested range is
appended, no existing alias is reused), or the reference of an existing alias whose range is **exactly** the requested one -/
def AliasResult (t : Tracker) (msb lsb : Nat) (fresh : Alias) (t' : Tracker) (r : Nat) : Prop :=
  (r = t.refCount ∧ t'.refCount = t.refCount + 1 ∧ t'.aliases.size = t.aliases.size + 1 ∧ t'.aliases[t.aliases.size]? = some fresh) ∨
  (t' = t ∧ ∃ a ∈ t.aliases.toList, a.msb = msb ∧ a.lsb = lsb ∧ a.ref = r)

theorem alias_go (t : Tracker) (msb lsb : Nat) (fresh : Alias) : ∀ (fuel aid : Nat) (t' : Tracker) (r : Nat),
    findOrAddAlias.go t msb lsb fresh fuel aid = some (t', r) → AliasResult t msb lsb fresh t' r := by
  intro fuel
  induction fuel with
  | zero => intro aid t' r h; simp [findOrAddAlias.go] at h
  | succ f ih =>
    intro aid t' r h
    unfold findOrAddAlias.go at h
    cases ha : t.aliases[aid - 1]? with
    | none => simp [ha] at h
    | some a =>
      simp only [ha] at h
      by_cases hm : a.msb = msb ∧ a.lsb = lsb
      · simp only [hm, and_self, ↓reduceIte, Option.some.injEq, Prod.mk.injEq] at h
        right
        refine ⟨h.1.symm, a, ?_, hm.1, hm.2, h.2⟩
        exact Array.mem_toList_iff.mpr (Array.mem_of_getElem? ha)
      · simp only [hm, ↓reduceIte] at h
        cases hn : a.next with
        | some nx => simp only [hn] at h; exact ih nx t' r h
        | none =>
          simp only [hn, Option.some.injEq, Prod.mk.injEq] at h
          left
          obtain ⟨h1, h2⟩ := h
          subst h1
          refine ⟨h2.symm, rfl, by simp, ?_⟩
          have hlt : aid - 1 < t.aliases.size := by
            have := Array.getElem?_eq_some_iff.mp ha
            exact this.1
          simp only [Array.set!_eq_setIfInBounds]
          rw [Array.getElem?_setIfInBounds_ne (by omega)]
          simp


/-- `find_or_add_alias`: fresh reference, or an alias of exactly the requested range -/
theorem C13_alias_exact (t t' : Tracker) (vecId msb lsb r : Nat) (h : findOrAddAlias t vecId msb lsb = some (t', r)) :
    ∃ v, t.vectors[vecId]? = some v ∧
      AliasResult t msb lsb { msb := msb, lsb := lsb, ref := t.refCount, sliced := v.ref } t' r := by
  unfold findOrAddAlias at h
  cases hv : t.vectors[vecId]? with
  | none => simp [hv] at h
  | some v =>
    simp only [hv] at h
    refine ⟨v, rfl, ?_⟩
    cases ha : v.aliasId with
    | none =>
      simp only [ha, Option.some.injEq, Prod.mk.injEq] at h
      left
      obtain ⟨h1, h2⟩ := h
      subst h1
      exact ⟨h2.symm, rfl, by simp, by simp⟩
    | some a0 =>
      simp only [ha] at h
      exact alias_go t msb lsb _ _ a0 t' r h

/-- `register_bit_vec` on a proper sub-range `[min, max]` of the registered vector `v` (signal ids `v.min … v.max`): the alias
carries exactly the bit offsets of that sub-range, counted from the vector's last signal id -/
theorem C13_alias_range (t t' : Tracker) (min max vid r : Nat) (two : Bool) (v : VecInfo)
    (hf : findVec t min (max + 1 - min) = some (some vid)) (hv : t.vectors[vid]? = some v)
    (hsub : ¬ (max = v.max ∧ min = v.min)) (h : registerBitVec t min max two = some (t', r)) :
    v.min ≤ min ∧ max ≤ v.max ∧
      AliasResult t (v.max - min) (v.max - max) { msb := v.max - min, lsb := v.max - max, ref := t.refCount, sliced := v.ref } t' r := by
  unfold registerBitVec at h
  simp only [hf, hv, hsub, ↓reduceIte] at h
  split at h
  · rename_i hin
    obtain ⟨v', hv', hres⟩ := C13_alias_exact t t' vid _ _ r h
    rw [hv] at hv'
    cases hv'
    exact ⟨hin.1, hin.2, hres⟩
  · cases h

end Wellen.Ghw
