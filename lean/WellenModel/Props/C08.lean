import WellenModel.Proofs.Hier
/-!
# C08 — the hierarchy is a well-formed, fully navigable tree

Two models: the pointer-level `Builder` (the code's representation: node arrays, child / next /
parent links, scope stack with sentinel and flattened entries, `find_last_child` on re-opening) and
the abstract specification `SpecSt` (nodes in declaration order with a parent pointer). The
theorems below are about the specification, for EVERY balanced operation sequence; the pointer-level
model and the real code are tied to it by the exhaustive small-scope + random differential run
(every navigation observer is compared).
-/
namespace Wellen.Hier

/-- for every balanced history: parents are scopes declared earlier (a forest in declaration order,
hence every walk terminates), sibling scopes have distinct names, open scopes exist -/
theorem C08_wellformed (ops : List Op) (s : SpecSt) (h : specRun ops = some s) : Inv s :=
  inv_run ops {} s inv_init h

/-- no two sibling scopes share a name -/
theorem C08_sibling_scopes_distinct (ops : List Op) (s : SpecSt) (h : specRun ops = some s)
    (i j : Nat) (a b : FNode) (hij : i ≠ j) (ha : s.nodes[i]? = some a) (hb : s.nodes[j]? = some b)
    (sa : a.isScope = true) (sb : b.isScope = true) (hp : a.parent = b.parent) : a.name ≠ b.name := by
  have hi := C08_wellformed ops s h
  rcases Nat.lt_or_gt_of_ne hij with hlt | hgt
  · exact hi.distinct i j a b hlt ha hb sa sb hp
  · exact fun e => hi.distinct j i b a hgt hb ha sb sa hp.symm e.symm

/-- the items of a scope (or of the top level) are exactly the nodes whose parent it is — so the
walk from the top visits every node exactly once: each node is listed under its one parent -/
theorem C08_children (nodes : List FNode) (p : Option Nat) (i : Nat) :
    i ∈ childrenOf nodes p ↔ i < nodes.length ∧ (nodes.getD i default).parent = p := by
  simp [childrenOf]

/-- … in declaration order -/
theorem C08_children_ordered (nodes : List FNode) (p : Option Nat) :
    (childrenOf nodes p).Pairwise (· < ·) := by
  unfold childrenOf
  exact List.Pairwise.filter _ (List.pairwise_lt_range)

theorem filter_partition_length (q : Nat → Bool) (l : List Nat) :
    (l.filter q).length + (l.filter fun i => !q i).length = l.length := by
  induction l with
  | nil => rfl
  | cons a r ih =>
    simp only [List.filter_cons]
    cases q a <;> simp <;> omega

/-- vars() and scopes() are the order-preserving partition of items() -/
theorem C08_partition (nodes : List FNode) (l : List Nat) :
    (l.filter fun i => (nodes.getD i default).isScope).Sublist l ∧
    (l.filter fun i => !(nodes.getD i default).isScope).Sublist l ∧
    (l.filter fun i => (nodes.getD i default).isScope).length +
      (l.filter fun i => !(nodes.getD i default).isScope).length = l.length := by
  exact ⟨List.filter_sublist, List.filter_sublist,
    filter_partition_length (fun i => (nodes.getD i default).isScope) l⟩

/-- lookups return the first declared item with the requested parent, kind and name -/
theorem C08_lookup_first (p : FNode → Bool) (nodes : List FNode) (j : Nat) (h : findIdx? p nodes 0 = some j) :
    (∃ n, nodes[j]? = some n ∧ p n = true) ∧ ∀ i, i < j → ∀ n, nodes[i]? = some n → p n = false := by
  obtain ⟨_, _, h3, h4⟩ := findIdx?_spec p nodes 0 j h
  exact ⟨by simpa using h3, by simpa using h4⟩

/-- opening a scope whose name a sibling scope already has continues that scope: nothing is added -/
theorem C08_reopen_continues (s : SpecSt) (name : String) (fl : Bool) (j : Nat)
    (h : findIdx? (fun n => n.isScope && n.parent == curParent s.stack && n.name == name) s.nodes 0 = some j) :
    specStep s (.scope name fl) = some { s with stack := .scope j :: s.stack } := by
  simp [specStep, h]

/-- non-vacuity: a balanced history with a re-opened scope and a dissolved empty scope -/
example : ∃ s, specRun [.scope "a" false, .var "x" 0, .pop, .scope "a" false, .scope "" true, .var "y" 1, .pop, .pop] = some s ∧
    s.nodes.length = 3 := ⟨_, rfl, rfl⟩

end Wellen.Hier
