import WellenModel.Proofs.Hier
import WellenModel.Proofs.HierRefine
import WellenModel.Proofs.HierObs
/-!
# C08 — the hierarchy is a well-formed, fully navigable tree

Two models: the pointer-level `Builder` (the code's representation: node arrays, child / next /
parent links, scope stack with sentinel and flattened entries, `find_last_child` on re-opening) and
the abstract specification `SpecSt` (nodes in declaration order with a parent pointer). The
theorems `C08_wellformed` … `C08_reopen_continues` are about the specification, for EVERY balanced operation sequence.
`C08_builder_refines_spec` (`Proofs/HierRefine.lean`, a simulation proof over all operation sequences) ties the
pointer-level model to it: for every balanced history the builder does not panic and its arrays, links, scope stack and
cached last children represent exactly the specification's node list; `C08_walk_refines` reads the navigation
observers off that relation (the item iterator of the top level and of every scope yields exactly the specification's
children in declaration order, names / signals / parents agree); `C08_full_names` and `C08_lookups` do the same for
`full_name` and `lookup_scope` / `lookup_var` / `lookup_var_with_index`. The real code is tied to the pointer-level model by
the exhaustive small-scope + random differential run (every navigation observer is compared).
-/
namespace Wellen.Hier

/-- for every balanced history: parents are scopes declared earlier (a forest in declaration order,
hence every walk terminates), sibling scopes have distinct names, open scopes exist -/
theorem C08_wellformed (ops : List Op) (s : SpecSt) (h : specRun ops = some s) : Inv s :=
  inv_run ops {} s inv_init h

/-- no two sibling scopes share a name -/
theorem C08_sibling_scopes_distinct (ops : List Op) (s : SpecSt) (h : specRun ops = some s)
    (i j : Nat) (a b : FNode) (hij : i ≠ j) (ha : s.nodes[i]? = some a) (hb : s.nodes[j]? = some b)
    (sa : a.isScope = true) (sb : b.isScope = true) (hp : a.parent = b.parent) : a.name ≠ b.name := by
  have hi := C08_wellformed ops s h
  rcases Nat.lt_or_gt_of_ne hij with hlt | hgt
  · exact hi.distinct i j a b hlt ha hb sa sb hp
  · exact fun e => hi.distinct j i b a hgt hb ha sb sa hp.symm e.symm

/-- the items of a scope (or of the top level) are exactly the nodes whose parent it is — so the
walk from the top visits every node exactly once: each node is listed under its one parent -/
theorem C08_children (nodes : List FNode) (p : Option Nat) (i : Nat) :
    i ∈ childrenOf nodes p ↔ i < nodes.length ∧ (nodes.getD i default).parent = p := by
  simp [childrenOf]

/-- … in declaration order -/
theorem C08_children_ordered (nodes : List FNode) (p : Option Nat) :
    (childrenOf nodes p).Pairwise (· < ·) := by
  unfold childrenOf
  exact List.Pairwise.filter _ (List.pairwise_lt_range)

theorem filter_partition_length (q : Nat → Bool) (l : List Nat) :
    (l.filter q).length + (l.filter fun i => !q i).length = l.length := by
  induction l with
  | nil => rfl
  | cons a r ih =>
    simp only [List.filter_cons]
    cases q a <;> simp <;> omega

/-- vars() and scopes() are the order-preserving partition of items() -/
theorem C08_partition (nodes : List FNode) (l : List Nat) :
    (l.filter fun i => (nodes.getD i default).isScope).Sublist l ∧
    (l.filter fun i => !(nodes.getD i default).isScope).Sublist l ∧
    (l.filter fun i => (nodes.getD i default).isScope).length +
      (l.filter fun i => !(nodes.getD i default).isScope).length = l.length := by
  exact ⟨List.filter_sublist, List.filter_sublist,
    filter_partition_length (fun i => (nodes.getD i default).isScope) l⟩

/-- lookups return the first declared item with the requested parent, kind and name -/
theorem C08_lookup_first (p : FNode → Bool) (nodes : List FNode) (j : Nat) (h : findIdx? p nodes 0 = some j) :
    (∃ n, nodes[j]? = some n ∧ p n = true) ∧ ∀ i, i < j → ∀ n, nodes[i]? = some n → p n = false := by
  obtain ⟨_, _, h3, h4⟩ := findIdx?_spec p nodes 0 j h
  exact ⟨by simpa using h3, by simpa using h4⟩

/-- opening a scope whose name a sibling scope already has continues that scope: nothing is added -/
theorem C08_reopen_continues (s : SpecSt) (name : String) (fl : Bool) (j : Nat)
    (h : findIdx? (fun n => n.isScope && n.parent == curParent s.stack && n.name == name) s.nodes 0 = some j) :
    specStep s (.scope name fl) = some { s with stack := .scope j :: s.stack } := by
  simp [specStep, h]

/-- **the pointer-level builder refines the specification**: for every balanced operation sequence (every order of
`add_scope` — new, re-opened, dissolved —, `add_var` and `pop_scope`) the model of `HierarchyBuilder` does not panic and
ends in a state that represents the specification's node list under a numbering `ids` (`Rel`: same number of nodes,
names / signals / parents agree, the child / next links of every scope and of the top level spell exactly the children in
declaration order, the scope stack with its cached last children mirrors the open scopes) -/
theorem C08_builder_refines_spec (ops : List Op) (s : SpecSt) (h : specRun ops = some s) :
    ∃ b ids, run ops = some b ∧ Rel b s ids :=
  rel_run ops {} {} s [] rel_init h

/-- what the observers see: walking from the first item visits exactly the top-level nodes, walking from a scope's first
child exactly that scope's children — in declaration order, each once (`ids` is injective) — and every visited item
carries the declared name, signal and parent -/
theorem C08_walk_refines (ops : List Op) (s : SpecSt) (h : specRun ops = some s) :
    ∃ b ids, run ops = some b ∧ ids.length = s.nodes.length ∧ ids.Nodup ∧
      itemsOf b b.firstItem = (childrenOf s.nodes none).map (idAt ids) ∧
      (∀ (j k : Nat), ids[j]? = some (ItemId.scope k) →
        itemsOf b (b.scopes.getD k default).child = (childrenOf s.nodes (some j)).map (idAt ids)) ∧
      (∀ (i : Nat) (n : FNode) (x : ItemId), s.nodes[i]? = some n → ids[i]? = some x → NodeRel b ids n x) := by
  obtain ⟨b, ids, hrun, hr⟩ := C08_builder_refines_spec ops s h
  refine ⟨b, ids, hrun, hr.len, hr.nodup, items_eq_kids b s ids hr none, ?_, hr.node⟩
  intro j k hjk
  have := items_eq_kids b s ids hr (some j)
  rwa [firstOf_scope b ids j k hjk] at this

/-- **full names** of the represented hierarchy: the builder's `full_name` of every scope and variable (climbing the parent
links) is the specification's dotted path of ancestor names — for every state `Rel` relates, hence (with
`C08_builder_refines_spec`) after every balanced history -/
theorem C08_full_names (b : Builder) (s : SpecSt) (ids : List ItemId) (hr : Rel b s ids) (j k : Nat) :
    (ids[j]? = some (ItemId.scope k) → scopeFullName b k = specFullName s.nodes s.nodes.length j) ∧
    (ids[j]? = some (ItemId.var k) → varFullName b k = specFullName s.nodes s.nodes.length j) := by
  refine ⟨fun h => ?_, fun h => ?_⟩
  · exact scopeFullName_eq b s ids hr k j _ h (Nat.le_of_lt (node_of_id b s ids hr j _ h).1)
  · exact varFullName_eq b s ids hr k j _ h (Nat.le_of_lt (node_of_id b s ids hr j _ h).1)

/-- **lookups** on the represented hierarchy return the item the specification designates: the first declared scope of
each name along the path, then the first declared variable with the name (and index) -/
theorem C08_lookups (b : Builder) (s : SpecSt) (ids : List ItemId) (hr : Rel b s ids) (path : List String) (name : String) :
    lookupScope b path = (specLookupScope s.nodes none path).bind (fun j => scopeIdx (idAt ids j)) ∧
    lookupVar b path name = (specLookupVar s.nodes path name).bind (fun j => varIdx (idAt ids j)) ∧
    lookupVarIdx b path name = (specLookupVarIdx s.nodes path name).bind (fun j => varIdx (idAt ids j)) :=
  ⟨lookupScope_eq b s ids hr path, lookupVar_eq b s ids hr path name, lookupVarIdx_eq b s ids hr path name⟩

/-- non-vacuity of the refinement: the history below (re-opened scope, dissolved empty scope) runs on the builder -/
example : ∃ b, run [.scope "a" false, .var "x" 0, .pop, .scope "a" false, .scope "" true, .var "y" 1, .pop, .pop] = some b ∧
    b.scopes.size = 1 ∧ b.vars.size = 2 := ⟨_, rfl, rfl, rfl⟩

/-- non-vacuity: a balanced history with a re-opened scope and a dissolved empty scope -/
example : ∃ s, specRun [.scope "a" false, .var "x" 0, .pop, .scope "a" false, .scope "" true, .var "y" 1, .pop, .pop] = some s ∧
    s.nodes.length = 3 := ⟨_, rfl, rfl⟩

end Wellen.Hier
