import WellenModel.Proofs.VcdHeader
/-!
# C09 — VCD declarations appear in the hierarchy as declared

Model: `Model/VcdHeader.lean` (byte-level header reader, callback, name / bit range parsing, attribute stack)
feeding the pointer-level builder of C08. The theorems cover the clauses of the property that are pure
functions of one declaration; the composition (text ↦ tree) is checked by the correspondence run,
where the generator's declaration list is interpreted on the abstract hierarchy of C08.
-/
namespace Wellen.VcdHeader
open Wellen.VcdBody Wellen.Store

/-- the signal number a declared variable receives -/
theorem varSig_get (vars : List (List Nat × SigType)) (i : Nat) (p : List Nat × SigType) (h : vars[i]? = some p) :
    (mkDecls vars).varSig[i]? = some (if needMap (vars.map (·.1)) then
        (indexOf? ((vars.map (·.1)).foldl (fun acc id => if acc.contains id then acc else acc ++ [id]) []) p.1).getD 0 + 1
      else (idToInt p.1).getD 0) := by
  simp only [mkDecls, List.getElem?_map, h, Option.map_some]
  split <;> simp_all

/-- **variables share a signal exactly when they share an identifier code** — for the direct mapping
(`id_to_int`) and for the hashed mapping the header reader switches to, for every list of declarations -/
theorem C09_share_iff (vars : List (List Nat × SigType)) (i j : Nat) (p q : List Nat × SigType)
    (hp : vars[i]? = some p) (hq : vars[j]? = some q) :
    (mkDecls vars).varSig[i]? = (mkDecls vars).varSig[j]? ↔ p.1 = q.1 := by
  rw [varSig_get vars i p hp, varSig_get vars j q hq]
  have hpm : p.1 ∈ vars.map (·.1) := List.mem_map.mpr ⟨p, List.mem_of_getElem? hp, rfl⟩
  have hqm : q.1 ∈ vars.map (·.1) := List.mem_map.mpr ⟨q, List.mem_of_getElem? hq, rfl⟩
  constructor
  · intro h
    cases hm : needMap (vars.map (·.1)) with
    | true =>
      simp only [hm, ↓reduceIte, Option.some.injEq] at h
      have m1 := dedup_mem (vars.map (·.1)) [] p.1 (Or.inr hpm)
      have m2 := dedup_mem (vars.map (·.1)) [] q.1 (Or.inr hqm)
      obtain ⟨n1, e1⟩ := indexOf_go_mem p.1 _ m1 0
      obtain ⟨n2, e2⟩ := indexOf_go_mem q.1 _ m2 0
      have e1' : indexOf? _ p.1 = some n1 := e1
      have e2' : indexOf? _ q.1 = some n2 := e2
      rw [e1', e2'] at h
      simp only [Option.getD_some] at h
      have : n1 = n2 := by omega
      subst this
      have g1 := (indexOf_go_some p.1 _ 0 n1 e1).2
      have g2 := (indexOf_go_some q.1 _ 0 n1 e2).2
      rw [g1] at g2
      exact Option.some.inj g2
    | false =>
      simp only [hm, Bool.false_eq_true, ↓reduceIte, Option.some.injEq] at h
      obtain ⟨v1, e1⟩ := needMap_go_false _ {} hm p.1 hpm
      obtain ⟨v2, e2⟩ := needMap_go_false _ {} hm q.1 hqm
      rw [e1, e2] at h
      simp only [Option.getD_some] at h
      subst h
      exact idToInt_inj _ _ _ e1 e2
  · intro h; rw [h]

/-- **bit ranges survive the packed representation**: `VarIndex::new(msb, lsb)` followed by `msb()` / `lsb()`
returns the declared bounds — negative ones included — whenever `msb - lsb` fits an `i32` -/
theorem C09_index_roundtrip (msb lsb : Int) (h1 : -(2 ^ 31 : Int) < msb - lsb) (h2 : msb - lsb < 2 ^ 31) :
    mkIndex msb lsb = { msb := msb, lsb := lsb } := by
  unfold mkIndex
  simp only
  have hw : ((msb - lsb + 2 ^ 31) % 2 ^ 32) - 2 ^ 31 = msb - lsb := by omega
  rw [hw]
  by_cases h0 : msb - lsb = 0
  · have : msb = lsb := by omega
    simp [this]
  · have h3 : ¬ (msb - lsb = -(2 ^ 31 : Int)) := by omega
    simp only [h0, ↓reduceIte, h3]
    congr 1; omega

/-- `[i]` is the one-bit range `i:i` -/
theorem C09_index_single (i : Int) : mkIndex i i = { msb := i, lsb := i } :=
  C09_index_roundtrip i i (by omega) (by omega)

/-- a width of 0 is read as 1 -/
theorem C09_width_zero (kind : String) : encOf kind 0 = encOf kind 1 := by
  simp [encOf]

/-- scope and variable keywords: the generated tables list every keyword once, so the lookup returns the table's kind -/
theorem C09_keywords_unique :
    (Gen.scopeKw.map (·.1)).Nodup ∧ (Gen.varKw.map (·.1)).Nodup ∧ (Gen.unitKw.map (·.1)).Nodup := by
  decide +kernel

/-- a scope is dissolved exactly when the option is set and its name is empty; `$date`, `$version` are stored verbatim -/
theorem C09_scope_flatten (removeEmpty : Bool) (h : Header) (tp name : List Nat) (kind : String)
    (hk : lookupKw Gen.scopeKw tp = some kind) (body : List Nat)
    (hb : (findTokens body).map (·.2) = [tp, name]) :
    ∃ src, applyCmd removeEmpty h "scope" body =
      .ok (some { h with attrs := [], ops := .scope kind (strOf name) (removeEmpty && name.isEmpty) src :: h.ops }) := by
  refine ⟨pendingLoc h.attrs, ?_⟩
  simp [applyCmd, hb, hk]

theorem C09_date_verbatim (removeEmpty : Bool) (h : Header) (body : List Nat) (hd : h.date = "") :
    applyCmd removeEmpty h "date" body = .ok (some { h with date := strOf body }) := by
  simp [applyCmd, hd]

/-- **`[msb:lsb]` is read back as declared** — for every base name ending in a non-space character `c`, any number of spaces
before the bracket and after it, negative bounds included (`numTxt` = optional `-` + decimal digits, `sval` its value): the
variable is named by the text before the range and the index is `VarIndex::new(msb, lsb)`, which returns the declared
bounds by `C09_index_roundtrip` -/
theorem C09_range_parse (pre : List Nat) (c : Nat) (sp1 sp2 : List Nat) (n1 n2 : Bool) (d1 d2 : List Nat)
    (hc : c ≠ 32) (hs1 : isSpaces sp1) (hs2 : isSpaces sp2) (hd1 : isDigits d1) (hd2 : isDigits d2) :
    extractSuffixIndex (pre ++ [c] ++ sp1 ++ [91] ++ numTxt n1 d1 ++ [58] ++ numTxt n2 d2 ++ [93] ++ sp2) =
      (pre ++ [c], some (mkIndex (sval n1 d1) (sval n2 d2))) := by
  rw [extractSuffixIndex_eq]
  generalize hv : pre ++ [c] ++ sp1 ++ [91] ++ numTxt n1 d1 ++ [58] ++ numTxt n2 d2 ++ [93] ++ sp2 = value
  have hid : idxRev value = idxRev (pre ++ [c] ++ sp1 ++ [91] ++ numTxt n1 d1 ++ [58] ++ numTxt n2 d2 ++ [93] ++ sp2) := by rw [hv]
  rw [hid, go_spaces' value _ _ sp2 hs2, idxRev_snoc]
  simp only [extractGo, show ¬ (93 : Nat) = 32 by decide, ↓reduceIte]
  rw [go_num_lsb value _ _ n2 d2 hd2, idxRev_snoc]
  simp only [extractGo, show ¬ (58 : Nat) = 32 by decide, show ¬ (48 ≤ 58 ∧ 58 ≤ 57) by decide, show ¬ (58 : Nat) = 45 by decide, ↓reduceIte]
  rw [go_num_msb value _ _ _ n1 d1 hd1, idxRev_snoc]
  simp only [extractGo, show ¬ (91 : Nat) = 32 by decide, show ¬ (48 ≤ 91 ∧ 91 ≤ 57) by decide, show ¬ (91 : Nat) = 45 by decide, ↓reduceIte]
  rw [go_spaces' value _ _ sp1 hs1, idxRev_snoc]
  simp only [extractGo, hc, ↓reduceIte]
  rw [← hv]; simp [List.take_append]
  exact List.take_of_length_le (by omega)

/-- `[i]` likewise: the one-bit range `i:i` -/
theorem C09_single_parse (pre : List Nat) (c : Nat) (sp1 sp2 : List Nat) (n : Bool) (d : List Nat)
    (hc : c ≠ 32) (hs1 : isSpaces sp1) (hs2 : isSpaces sp2) (hd : isDigits d) :
    extractSuffixIndex (pre ++ [c] ++ sp1 ++ [91] ++ numTxt n d ++ [93] ++ sp2) =
      (pre ++ [c], some (mkIndex (sval n d) (sval n d))) := by
  rw [extractSuffixIndex_eq]
  generalize hv : pre ++ [c] ++ sp1 ++ [91] ++ numTxt n d ++ [93] ++ sp2 = value
  have hid : idxRev value = idxRev (pre ++ [c] ++ sp1 ++ [91] ++ numTxt n d ++ [93] ++ sp2) := by rw [hv]
  rw [hid, go_spaces' value _ _ sp2 hs2, idxRev_snoc]
  simp only [extractGo, show ¬ (93 : Nat) = 32 by decide, ↓reduceIte]
  rw [go_num_lsb value _ _ n d hd, idxRev_snoc]
  simp only [extractGo, show ¬ (91 : Nat) = 32 by decide, show ¬ (48 ≤ 91 ∧ 91 ≤ 57) by decide, show ¬ (91 : Nat) = 45 by decide,
    show ¬ (91 : Nat) = 58 by decide, ↓reduceIte]
  rw [go_spaces' value _ _ sp1 hs1, idxRev_snoc]
  simp only [extractGo, hc, ↓reduceIte]
  rw [← hv]; simp [List.take_append]
  exact List.take_of_length_le (by omega)

example : decVal [49, 50, 51] = 123 ∧ sval true [55] = -7 ∧ numTxt true [55] = [45, 55] := by decide

/-- non-vacuity: `[7:0]`, `[-2]`, a space before the range, two groups -/
example : extractSuffixIndex (bytesOfStr "data[7:0]") = (bytesOfStr "data", some { msb := 7, lsb := 0 }) := by decide
example : extractSuffixIndex (bytesOfStr "x [-2]") = (bytesOfStr "x", some { msb := -2, lsb := -2 }) := by decide
example : extractSuffixIndex (bytesOfStr "x[ -1 : -8 ]") = (bytesOfStr "x", some { msb := -1, lsb := -8 }) := by decide
example : parseName (bytesOfStr "mem[3][1] [7:0]") = some (bytesOfStr "[1]", some { msb := 7, lsb := 0 }, [bytesOfStr "mem", bytesOfStr "[3]"]) := by decide
example : idToInt [33] = some 0 ∧ idToInt [34, 33] = some 95 := by decide

/-! ### extra bracket groups: array scopes (`parse_name`) -/

theorem rev_induction {α : Type} (P : List α → Prop) (h0 : P []) (hs : ∀ r g, P r → P (r ++ [g])) : ∀ l, P l := by
  intro l
  have : ∀ n, ∀ l : List α, l.length = n → P l := by
    intro n
    induction n with
    | zero => intro l hl; have := List.length_eq_zero_iff.mp hl; subst this; exact h0
    | succ n ih =>
      intro l hl
      have hne : l ≠ [] := by intro e; subst e; simp at hl
      rw [← List.dropLast_concat_getLast hne]
      exact hs _ _ (ih _ (by simp [hl]))
  exact this _ l rfl

/-- a bracket group `[content]`, the content free of brackets -/
def grp (c : List Nat) : List Nat := [91] ++ c ++ [93]

/-- base name followed by bracket groups, each after optional spaces -/
def withGroups (b : List Nat) : List (List Nat × List Nat) → List Nat
  | [] => b
  | (sp, c) :: r => withGroups (b ++ sp ++ grp c) r

theorem withGroups_snoc (b : List Nat) (gs : List (List Nat × List Nat)) (sp c : List Nat) :
    withGroups b (gs ++ [(sp, c)]) = withGroups b gs ++ sp ++ grp c := by
  induction gs generalizing b with
  | nil => rfl
  | cons g r ih => obtain ⟨sp', c'⟩ := g; simp only [List.cons_append, withGroups]; exact ih _

theorem grp_getLast (c : List Nat) : (grp c).getLast? = some 93 := by
  unfold grp
  rw [List.getLast?_append]
  simp

theorem findLast_go_none (needle : Nat) : ∀ (l : List Nat) (pos : Nat) (best : Option Nat), needle ∉ l →
    findLast.go needle l pos best = best := by
  intro l
  induction l with
  | nil => intro _ _ _; rfl
  | cons a r ih =>
    intro pos best h
    simp only [findLast.go]
    have ha : a ≠ needle := fun e => h (by simp [e])
    simp only [ha, if_false]
    exact ih _ _ (fun hm => h (List.mem_cons_of_mem _ hm))

theorem findLast_go_last (needle : Nat) : ∀ (A C : List Nat) (pos : Nat) (best : Option Nat), needle ∉ C →
    findLast.go needle (A ++ needle :: C) pos best = some (pos + A.length) := by
  intro A
  induction A with
  | nil =>
    intro C pos best hC
    simp only [List.nil_append, findLast.go, if_true, List.length_nil, Nat.add_zero]
    exact findLast_go_none needle C _ _ hC
  | cons a r ih =>
    intro C pos best hC
    simp only [List.cons_append, findLast.go, List.length_cons]
    rw [ih C _ _ hC]
    congr 1; omega

theorem findLast_grp (N sp c : List Nat) (hc : 91 ∉ c) :
    findLast (N ++ sp ++ grp c) 91 = some (N ++ sp).length := by
  unfold findLast grp
  have : N ++ sp ++ ([91] ++ c ++ [93]) = (N ++ sp) ++ 91 :: (c ++ [93]) := by simp
  rw [this, findLast_go_last 91 (N ++ sp) (c ++ [93]) 0 none (by simp [hc])]
  simp

theorem rightSp_spaces (sp R : List Nat) (hs : ∀ x ∈ sp, x = 32) :
    trimRight.rightSp (sp ++ R) = trimRight.rightSp R := by
  induction sp with
  | nil => rfl
  | cons a r ih =>
    have ha : a = 32 := hs a (by simp)
    simp only [List.cons_append, trimRight.rightSp, ha, if_true]
    exact ih (fun x hx => hs x (List.mem_cons_of_mem _ hx))

theorem rightSp_id (R : List Nat) (h : R.head? ≠ some 32) : trimRight.rightSp R = R := by
  cases R with
  | nil => rfl
  | cons a r =>
    have : a ≠ 32 := fun e => h (by simp [e])
    simp [trimRight.rightSp, this]

theorem trimRight_spaces (N sp : List Nat) (hs : ∀ x ∈ sp, x = 32) (hN : N.getLast? ≠ some 32) :
    trimRight (N ++ sp) = N := by
  unfold trimRight
  rw [List.reverse_append, rightSp_spaces _ _ (fun x hx => hs x (List.mem_reverse.mp hx)),
    rightSp_id _ (by rw [List.head?_reverse]; exact hN), List.reverse_reverse]

theorem withGroups_last (b : List Nat) (gs : List (List Nat × List Nat)) (hb : b.getLast? ≠ some 32) :
    (withGroups b gs).getLast? ≠ some 32 := by
  refine rev_induction (fun gs => (withGroups b gs).getLast? ≠ some 32) hb ?_ gs
  intro r g _
  obtain ⟨sp, c⟩ := g
  rw [withGroups_snoc, List.getLast?_append, grp_getLast]
  simp

/-- **`parse_name` splits trailing bracket groups**: peeling groups off the end of `base [g1] [g2] … [gn]` (any spaces in
front of each group, group contents free of brackets, the base not ending in `]` or a space) returns the base and the
groups, last first -/
theorem groups_spec (b : List Nat) (hb1 : b.getLast? ≠ some 93) (hb2 : b.getLast? ≠ some 32) :
    ∀ (gs : List (List Nat × List Nat)), (∀ g ∈ gs, (∀ x ∈ g.1, x = 32) ∧ 91 ∉ g.2 ∧ 93 ∉ g.2) →
    ∀ (fuel : Nat) (acc : List (List Nat)), gs.length < fuel →
      parseName.groups fuel (withGroups b gs) acc = some (b, acc ++ gs.reverse.map (fun g => grp g.2)) := by
  refine rev_induction (fun gs => (∀ g ∈ gs, (∀ x ∈ g.1, x = 32) ∧ 91 ∉ g.2 ∧ 93 ∉ g.2) →
    ∀ (fuel : Nat) (acc : List (List Nat)), gs.length < fuel →
      parseName.groups fuel (withGroups b gs) acc = some (b, acc ++ gs.reverse.map (fun g => grp g.2))) ?_ ?_
  · intro _ fuel acc hf
    cases fuel with
    | zero => simp at hf
    | succ f => simp [parseName.groups, withGroups, hb1]
  · intro r g ih hg fuel acc hf
    obtain ⟨sp, c⟩ := g
    have hgc := hg (sp, c) (by simp)
    cases fuel with
    | zero => simp at hf
    | succ f =>
      rw [withGroups_snoc]
      have hlast : (withGroups b r ++ sp ++ grp c).getLast? = some 93 := by
        rw [List.getLast?_append, grp_getLast]; simp
      simp only [parseName.groups, hlast, if_true]
      rw [findLast_grp _ _ _ hgc.2.1]
      simp only
      rw [show (withGroups b r ++ sp ++ grp c).take (withGroups b r ++ sp).length = withGroups b r ++ sp by
            rw [List.take_left'] ; rfl,
          show (withGroups b r ++ sp ++ grp c).drop (withGroups b r ++ sp).length = grp c by
            rw [List.drop_left'] ; rfl]
      rw [trimRight_spaces _ _ hgc.1 (withGroups_last b r hb2)]
      rw [ih (fun g' hg' => hg g' (by simp [hg'])) f _ (by simp at hf; omega)]
      simp

theorem withGroups_length (b : List Nat) (gs : List (List Nat × List Nat)) : gs.length ≤ (withGroups b gs).length := by
  refine rev_induction (fun gs => gs.length ≤ (withGroups b gs).length) (by simp) ?_ gs
  intro r g ih
  obtain ⟨sp, c⟩ := g
  rw [withGroups_snoc]
  simp [grp] at ih ⊢
  omega

/-- **extra bracket groups become array scopes**: a variable written `base [g1] … [gn] [msb:lsb]` (n ≥ 1; any spaces in
front of each group and around the bit range; group contents free of brackets; the base not ending in `]` or a space;
negative bounds allowed) is declared as the variable `[gn]` with the bit range `msb:lsb`, inside the array scopes `base`,
`[g1]`, …, `[g(n-1)]` — outermost first -/
theorem C09_array_scopes (b : List Nat) (hb1 : b.getLast? ≠ some 93) (hb2 : b.getLast? ≠ some 32)
    (r : List (List Nat × List Nat)) (sp c : List Nat)
    (hg : ∀ g ∈ r ++ [(sp, c)], (∀ x ∈ g.1, x = 32) ∧ 91 ∉ g.2 ∧ 93 ∉ g.2)
    (sp1 sp2 : List Nat) (n1 n2 : Bool) (d1 d2 : List Nat)
    (hs1 : isSpaces sp1) (hs2 : isSpaces sp2) (hd1 : isDigits d1) (hd2 : isDigits d2) :
    parseName (withGroups b (r ++ [(sp, c)]) ++ sp1 ++ [91] ++ numTxt n1 d1 ++ [58] ++ numTxt n2 d2 ++ [93] ++ sp2) =
      some (grp c, some (mkIndex (sval n1 d1) (sval n2 d2)), b :: r.map (fun g => grp g.2)) := by
  have hname : withGroups b (r ++ [(sp, c)]) = (withGroups b r ++ sp ++ [91] ++ c) ++ [93] := by
    rw [withGroups_snoc]; simp [grp]
  have hx := C09_range_parse (withGroups b r ++ sp ++ [91] ++ c) 93 sp1 sp2 n1 n2 d1 d2 (by decide) hs1 hs2 hd1 hd2
  rw [← hname] at hx
  unfold parseName
  have hne : (withGroups b (r ++ [(sp, c)]) ++ sp1 ++ [91] ++ numTxt n1 d1 ++ [58] ++ numTxt n2 d2 ++ [93] ++ sp2).isEmpty = false := by
    simp
  rw [hne]
  simp only [Bool.false_eq_true, if_false, hx]
  have hfuel : (r ++ [(sp, c)]).length <
      (withGroups b (r ++ [(sp, c)]) ++ sp1 ++ [91] ++ numTxt n1 d1 ++ [58] ++ numTxt n2 d2 ++ [93] ++ sp2).length + 1 := by
    have := withGroups_length b (r ++ [(sp, c)])
    simp only [List.length_append] at this ⊢
    omega
  rw [groups_spec b hb1 hb2 (r ++ [(sp, c)]) hg _ [] hfuel]
  simp


/-- non-vacuity: `mem [3][1] [7:0]` is the variable `[1]` with range 7:0 inside the array scopes `mem`, `[3]` -/
example : parseName (bytesOfStr "mem [3][1] [7:0]") =
    some (bytesOfStr "[1]", some { msb := 7, lsb := 0 }, [bytesOfStr "mem", bytesOfStr "[3]"]) := by decide

end Wellen.VcdHeader
