import WellenModel.Proofs.VcdHeader
/-!
# C09 — VCD declarations appear in the hierarchy as declared

Model: `Model/VcdHeader.lean` (byte-level header reader, callback, name / bit range parsing, attribute stack)
feeding the pointer-level builder of C08. The theorems cover the clauses of the property that are pure
functions of one declaration; the composition (text ↦ tree) is checked by the correspondence run,
where the generator's declaration list is interpreted on the abstract hierarchy of C08.
-/
namespace Wellen.VcdHeader
open Wellen.VcdBody Wellen.Store

/-- the signal number a declared variable receives -/
theorem varSig_get (vars : List (List Nat × SigType)) (i : Nat) (p : List Nat × SigType) (h : vars[i]? = some p) :
    (mkDecls vars).varSig[i]? = some (if needMap (vars.map (·.1)) then
        (indexOf? ((vars.map (·.1)).foldl (fun acc id => if acc.contains id then acc else acc ++ [id]) []) p.1).getD 0 + 1
      else (idToInt p.1).getD 0) := by
  simp only [mkDecls, List.getElem?_map, h, Option.map_some]
  split <;> simp_all

/-- **variables share a signal exactly when they share an identifier code** — for the direct mapping
(`id_to_int`) and for the hashed mapping the header reader switches to, for every list of declarations -/
theorem C09_share_iff (vars : List (List Nat × SigType)) (i j : Nat) (p q : List Nat × SigType)
    (hp : vars[i]? = some p) (hq : vars[j]? = some q) :
    (mkDecls vars).varSig[i]? = (mkDecls vars).varSig[j]? ↔ p.1 = q.1 := by
  rw [varSig_get vars i p hp, varSig_get vars j q hq]
  have hpm : p.1 ∈ vars.map (·.1) := List.mem_map.mpr ⟨p, List.mem_of_getElem? hp, rfl⟩
  have hqm : q.1 ∈ vars.map (·.1) := List.mem_map.mpr ⟨q, List.mem_of_getElem? hq, rfl⟩
  constructor
  · intro h
    cases hm : needMap (vars.map (·.1)) with
    | true =>
      simp only [hm, ↓reduceIte, Option.some.injEq] at h
      have m1 := dedup_mem (vars.map (·.1)) [] p.1 (Or.inr hpm)
      have m2 := dedup_mem (vars.map (·.1)) [] q.1 (Or.inr hqm)
      obtain ⟨n1, e1⟩ := indexOf_go_mem p.1 _ m1 0
      obtain ⟨n2, e2⟩ := indexOf_go_mem q.1 _ m2 0
      have e1' : indexOf? _ p.1 = some n1 := e1
      have e2' : indexOf? _ q.1 = some n2 := e2
      rw [e1', e2'] at h
      simp only [Option.getD_some] at h
      have : n1 = n2 := by omega
      subst this
      have g1 := (indexOf_go_some p.1 _ 0 n1 e1).2
      have g2 := (indexOf_go_some q.1 _ 0 n1 e2).2
      rw [g1] at g2
      exact Option.some.inj g2
    | false =>
      simp only [hm, Bool.false_eq_true, ↓reduceIte, Option.some.injEq] at h
      obtain ⟨v1, e1⟩ := needMap_go_false _ {} hm p.1 hpm
      obtain ⟨v2, e2⟩ := needMap_go_false _ {} hm q.1 hqm
      rw [e1, e2] at h
      simp only [Option.getD_some] at h
      subst h
      exact idToInt_inj _ _ _ e1 e2
  · intro h; rw [h]

/-- **bit ranges survive the packed representation**: `VarIndex::new(msb, lsb)` followed by `msb()` / `lsb()`
returns the declared bounds — negative ones included — whenever `msb - lsb` fits an `i32` -/
theorem C09_index_roundtrip (msb lsb : Int) (h1 : -(2 ^ 31 : Int) < msb - lsb) (h2 : msb - lsb < 2 ^ 31) :
    mkIndex msb lsb = { msb := msb, lsb := lsb } := by
  unfold mkIndex
  simp only
  have hw : ((msb - lsb + 2 ^ 31) % 2 ^ 32) - 2 ^ 31 = msb - lsb := by omega
  rw [hw]
  by_cases h0 : msb - lsb = 0
  · have : msb = lsb := by omega
    simp [this]
  · have h3 : ¬ (msb - lsb = -(2 ^ 31 : Int)) := by omega
    simp only [h0, ↓reduceIte, h3]
    congr 1; omega

/-- `[i]` is the one-bit range `i:i` -/
theorem C09_index_single (i : Int) : mkIndex i i = { msb := i, lsb := i } :=
  C09_index_roundtrip i i (by omega) (by omega)

/-- a width of 0 is read as 1 -/
theorem C09_width_zero (kind : String) : encOf kind 0 = encOf kind 1 := by
  simp [encOf]

/-- scope and variable keywords: the generated tables list every keyword once, so the lookup returns the table's kind -/
theorem C09_keywords_unique :
    (Gen.scopeKw.map (·.1)).Nodup ∧ (Gen.varKw.map (·.1)).Nodup ∧ (Gen.unitKw.map (·.1)).Nodup := by
  decide +kernel

/-- a scope is dissolved exactly when the option is set and its name is empty; `$date`, `$version` are stored verbatim -/
theorem C09_scope_flatten (removeEmpty : Bool) (h : Header) (tp name : List Nat) (kind : String)
    (hk : lookupKw Gen.scopeKw tp = some kind) (body : List Nat)
    (hb : (findTokens body).map (·.2) = [tp, name]) :
    ∃ src, applyCmd removeEmpty h "scope" body =
      .ok (some { h with attrs := [], ops := .scope kind (strOf name) (removeEmpty && name.isEmpty) src :: h.ops }) := by
  refine ⟨pendingLoc h.attrs, ?_⟩
  simp [applyCmd, hb, hk]

theorem C09_date_verbatim (removeEmpty : Bool) (h : Header) (body : List Nat) (hd : h.date = "") :
    applyCmd removeEmpty h "date" body = .ok (some { h with date := strOf body }) := by
  simp [applyCmd, hd]

/-- **`[msb:lsb]` is read back as declared** — for every base name ending in a non-space character `c`, any number of spaces
before the bracket and after it, negative bounds included (`numTxt` = optional `-` + decimal digits, `sval` its value): the
variable is named by the text before the range and the index is `VarIndex::new(msb, lsb)`, which returns the declared
bounds by `C09_index_roundtrip` -/
theorem C09_range_parse (pre : List Nat) (c : Nat) (sp1 sp2 : List Nat) (n1 n2 : Bool) (d1 d2 : List Nat)
    (hc : c ≠ 32) (hs1 : isSpaces sp1) (hs2 : isSpaces sp2) (hd1 : isDigits d1) (hd2 : isDigits d2) :
    extractSuffixIndex (pre ++ [c] ++ sp1 ++ [91] ++ numTxt n1 d1 ++ [58] ++ numTxt n2 d2 ++ [93] ++ sp2) =
      (pre ++ [c], some (mkIndex (sval n1 d1) (sval n2 d2))) := by
  rw [extractSuffixIndex_eq]
  generalize hv : pre ++ [c] ++ sp1 ++ [91] ++ numTxt n1 d1 ++ [58] ++ numTxt n2 d2 ++ [93] ++ sp2 = value
  have hid : idxRev value = idxRev (pre ++ [c] ++ sp1 ++ [91] ++ numTxt n1 d1 ++ [58] ++ numTxt n2 d2 ++ [93] ++ sp2) := by rw [hv]
  rw [hid, go_spaces' value _ _ sp2 hs2, idxRev_snoc]
  simp only [extractGo, show ¬ (93 : Nat) = 32 by decide, ↓reduceIte]
  rw [go_num_lsb value _ _ n2 d2 hd2, idxRev_snoc]
  simp only [extractGo, show ¬ (58 : Nat) = 32 by decide, show ¬ (48 ≤ 58 ∧ 58 ≤ 57) by decide, show ¬ (58 : Nat) = 45 by decide, ↓reduceIte]
  rw [go_num_msb value _ _ _ n1 d1 hd1, idxRev_snoc]
  simp only [extractGo, show ¬ (91 : Nat) = 32 by decide, show ¬ (48 ≤ 91 ∧ 91 ≤ 57) by decide, show ¬ (91 : Nat) = 45 by decide, ↓reduceIte]
  rw [go_spaces' value _ _ sp1 hs1, idxRev_snoc]
  simp only [extractGo, hc, ↓reduceIte]
  rw [← hv]; simp [List.take_append]
  exact List.take_of_length_le (by omega)

/-- `[i]` likewise: the one-bit range `i:i` -/
theorem C09_single_parse (pre : List Nat) (c : Nat) (sp1 sp2 : List Nat) (n : Bool) (d : List Nat)
    (hc : c ≠ 32) (hs1 : isSpaces sp1) (hs2 : isSpaces sp2) (hd : isDigits d) :
    extractSuffixIndex (pre ++ [c] ++ sp1 ++ [91] ++ numTxt n d ++ [93] ++ sp2) =
      (pre ++ [c], some (mkIndex (sval n d) (sval n d))) := by
  rw [extractSuffixIndex_eq]
  generalize hv : pre ++ [c] ++ sp1 ++ [91] ++ numTxt n d ++ [93] ++ sp2 = value
  have hid : idxRev value = idxRev (pre ++ [c] ++ sp1 ++ [91] ++ numTxt n d ++ [93] ++ sp2) := by rw [hv]
  rw [hid, go_spaces' value _ _ sp2 hs2, idxRev_snoc]
  simp only [extractGo, show ¬ (93 : Nat) = 32 by decide, ↓reduceIte]
  rw [go_num_lsb value _ _ n d hd, idxRev_snoc]
  simp only [extractGo, show ¬ (91 : Nat) = 32 by decide, show ¬ (48 ≤ 91 ∧ 91 ≤ 57) by decide, show ¬ (91 : Nat) = 45 by decide,
    show ¬ (91 : Nat) = 58 by decide, ↓reduceIte]
  rw [go_spaces' value _ _ sp1 hs1, idxRev_snoc]
  simp only [extractGo, hc, ↓reduceIte]
  rw [← hv]; simp [List.take_append]
  exact List.take_of_length_le (by omega)

example : decVal [49, 50, 51] = 123 ∧ sval true [55] = -7 ∧ numTxt true [55] = [45, 55] := by decide

/-- non-vacuity: `[7:0]`, `[-2]`, a space before the range, two groups -/
example : extractSuffixIndex (bytesOfStr "data[7:0]") = (bytesOfStr "data", some { msb := 7, lsb := 0 }) := by decide
example : extractSuffixIndex (bytesOfStr "x [-2]") = (bytesOfStr "x", some { msb := -2, lsb := -2 }) := by decide
example : extractSuffixIndex (bytesOfStr "x[ -1 : -8 ]") = (bytesOfStr "x", some { msb := -1, lsb := -8 }) := by decide
example : parseName (bytesOfStr "mem[3][1] [7:0]") = some (bytesOfStr "[1]", some { msb := 7, lsb := 0 }, [bytesOfStr "mem", bytesOfStr "[3]"]) := by decide
example : idToInt [33] = some 0 ∧ idToInt [34, 33] = some 95 := by decide

end Wellen.VcdHeader
