import WellenModel.Proofs.VcdStop
/-!
# C15 — a truncated VCD loads as a prefix of the complete one

Proved about the body parser (every byte string, every cut position):
* `C15_prefix_events`: the events produced from a prefix are — up to at most one last event, made
  from the token that was cut — a prefix of the events of the whole input;
* `C15_boundary_exact`: when the cut falls after a complete line (no pending token, no vector
  value waiting for its id) the prefix's events are exactly a prefix, and the parse succeeds;
* the parser is a total function (structural recursion): it cannot hang.
NOT provable, because false for the current code (finding F7): "never panics" — a value token that
is cut before / inside its identifier code or inside a real number reaches `unwrap`s in
`VcdEncoder::value` / `add_vcd_change`. The model reproduces those panics; the differential run
checks that the implementation panics exactly where the model says and nowhere else.
-/
namespace Wellen.VcdBody

theorem C15_prefix_events (stop : Option Nat) (bs1 bs2 : List Nat) (nl : Bool) :
    ∃ c, c <+: evsOf (parseBody stop (bs1 ++ bs2) nl) ∧
      (evsOf (parseBody stop bs1 nl) = c ∨ ∃ x, evsOf (parseBody stop bs1 nl) = c ++ [x]) :=
  prefix_events stop bs1 bs2 nl

theorem C15_boundary_exact (stop : Option Nat) (bs1 bs2 : List Nat) (nl : Bool) (m' : M)
    (hm : runM stop (initM nl) bs1 = .cont m') (hb : m'.first = []) (hst : m'.st ≠ .idTok) :
    evsOf (parseBody stop bs1 nl) <+: evsOf (parseBody stop (bs1 ++ bs2) nl) ∧
    parseBody stop bs1 nl = .ok m'.evs.reverse :=
  prefix_events_at_boundary stop bs1 bs2 nl m' hm hb hst

/-- non-vacuity: cutting `…\n#12|3\n1!` inside the timestamp yields the time 12 as the one extra event -/
example : evsOf (parseBody none [10, 35, 53, 10, 49, 33, 10, 35, 49, 50]) =
    [.time 5, .value [49] [33]] ++ [.time 12] := by decide
example : evsOf (parseBody none ([10, 35, 53, 10, 49, 33, 10, 35, 49, 50] ++ [51, 10])) =
    [.time 5, .value [49] [33], .time 123] := by decide

end Wellen.VcdBody
