import WellenModel.Proofs.VcdStop
import WellenModel.Proofs.Truncation
/-!
# C15 — a truncated VCD loads as a prefix of the complete one

Proved about the body parser (every byte string, every cut position):
* `C15_prefix_events`: the events produced from a prefix are — up to at most one last event, made
  from the token that was cut — a prefix of the events of the whole input;
* `C15_boundary_exact`: when the cut falls after a complete line (no pending token, no vector
  value waiting for its id) the prefix's events are exactly a prefix, and the parse succeeds;
* `C15_time_table_prefix`: when the truncated and the complete body both load, the truncated time
  table without its last entry is a prefix of the complete one (store level: through
  `VcdEncoder`, `Encoder::time_change`, `finish`);
* `C15_waveform_agrees_partial`: the abstract waveforms (C02/C04 specification) of the truncated
  and of the complete body both extend the waveform of their common events: same initial time
  table, each change list an initial part, equal changes strictly before the last common time
  step. PARTIAL: the property speaks of the changes before the *truncated file's* last time; when
  the cut token is itself a timestamp that opens a new step (`#12` of `#123`), the changes AT the
  last common step are covered only through the fact that the completed token is again a
  timestamp (`#123` ≥ `#12`), which is not proved here (the differential run checks it on every
  cut position of every generated file);
* the parser is a total function (structural recursion): it cannot hang.
NOT provable, because false for the current code (finding F7): "never panics" — a value token that
is cut before / inside its identifier code or inside a real number reaches `unwrap`s in
`VcdEncoder::value` / `add_vcd_change`. The model reproduces those panics; the differential run
checks that the implementation panics exactly where the model says and nowhere else.
-/
namespace Wellen.VcdBody

theorem C15_prefix_events (stop : Option Nat) (bs1 bs2 : List Nat) (nl : Bool) :
    ∃ c, c <+: evsOf (parseBody stop (bs1 ++ bs2) nl) ∧
      (evsOf (parseBody stop bs1 nl) = c ∨ ∃ x, evsOf (parseBody stop bs1 nl) = c ++ [x]) :=
  prefix_events stop bs1 bs2 nl

theorem C15_boundary_exact (stop : Option Nat) (bs1 bs2 : List Nat) (nl : Bool) (m' : M)
    (hm : runM stop (initM nl) bs1 = .cont m') (hb : m'.first = []) (hst : m'.st ≠ .idTok) :
    evsOf (parseBody stop bs1 nl) <+: evsOf (parseBody stop (bs1 ++ bs2) nl) ∧
    parseBody stop bs1 nl = .ok m'.evs.reverse :=
  prefix_events_at_boundary stop bs1 bs2 nl m' hm hb hst

/-- store level: the time table of a truncated file, without its last entry, is a prefix of the complete file's -/
theorem C15_time_table_prefix (c : Store.Codec) (d : Decls) (rm : RealMap) (bs1 bs2 : List Nat) (enc1 enc2 : Store.Enc)
    (h1 : readValues c d rm bs1 .single = .ok enc1) (h2 : readValues c d rm (bs1 ++ bs2) .single = .ok enc2) :
    ((Store.finish c enc1).2).dropLast <+: (Store.finish c enc2).2 :=
  truncated_time_table c d rm bs1 bs2 enc1 enc2 h1 h2

/-- abstract waveform: both the truncated and the complete body's waveform extend the waveform `sc` of the common events -/
theorem C15_waveform_agrees_partial (types : Array Store.SigType) (d : Decls) (rm : RealMap) (bs1 bs2 : List Nat) (nl : Bool)
    (ops1 ops2 : List Spec.Op)
    (h1 : opsOfEvs d rm (implicitZero (evsOf (parseBody none bs1 nl))) = some ops1)
    (h2 : opsOfEvs d rm (implicitZero (evsOf (parseBody none (bs1 ++ bs2) nl))) = some ops2)
    (s0 s1 s2 : Spec.St) (hw : s0.ttLen = s0.ttRev.length)
    (f1 : Spec.foldSpec types ops1 s0 = some s1) (f2 : Spec.foldSpec types ops2 s0 = some s2) :
    ∃ sc : Spec.St, sc.ttRev <:+ s1.ttRev ∧ sc.ttRev <:+ s2.ttRev ∧
      ∀ i, (∃ n1, s1.changesRev.getD i [] = n1 ++ sc.changesRev.getD i []) ∧
           (∃ n2, s2.changesRev.getD i [] = n2 ++ sc.changesRev.getD i []) ∧
           (s1.changesRev.getD i []).filter (fun p => p.1 < sc.ttLen - 1) =
             (s2.changesRev.getD i []).filter (fun p => p.1 < sc.ttLen - 1) := by
  obtain ⟨pre, ⟨r, hr⟩, hx⟩ := prefix_events none bs1 bs2 nl
  rw [← hr] at h2
  obtain ⟨_, sc, _, _, a, b, c⟩ := truncated_waveform types d rm pre r _ hx ops1 ops2 h1 h2 s0 s1 s2 hw f1 f2
  exact ⟨sc, a, b, c⟩

/-- non-vacuity: cutting `…\n#12|3\n1!` inside the timestamp yields the time 12 as the one extra event -/
example : evsOf (parseBody none [10, 35, 53, 10, 49, 33, 10, 35, 49, 50]) =
    [.time 5, .value [49] [33]] ++ [.time 12] := by decide
example : evsOf (parseBody none ([10, 35, 53, 10, 49, 33, 10, 35, 49, 50] ++ [51, 10])) =
    [.time 5, .value [49] [33], .time 123] := by decide

end Wellen.VcdBody
