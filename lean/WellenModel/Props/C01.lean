import WellenModel.Proofs.VcdLex
import WellenModel.Proofs.Canon
import WellenModel.Proofs.EvOps
/-!
# C01 — VCD value changes are reported faithfully

Model: `Model/VcdBody.lean` (parse_body, parse_first_token, VcdEncoder, id_to_int / id map) on top of
`Model/Store.lean`. Proved here (for every byte string / value, no bounds):
* the byte-level state machine of `parse_body` is the token-level interpreter `interpT`
  (`C01_lexing`): white space of any kind and amount, LF/CRLF, blank lines and token placement do
  not matter, and nothing but the listed token classes produces events;
* the kind stored with a value is the smallest sufficient one and the characters rendered are the
  lower-cased characters written (`C01_chars`, via C04/C06 lemmas over the generated tables).
* a successful single-threaded load IS the store run on the operations its tokens denote
  (`C01_load_is_store_run`: identifier codes resolved, the implicit time 0 of a body that starts
  with a value inserted), and its time table is the strictly increasing list of the `#` tokens
  (`C01_time_table`); `C01_later_chunk`: a later chunk of a multi-threaded load drops the values
  in front of its first timestamp and is otherwise the same run.
What the store makes of those operations is the subject of C02 / C04 / C06; the composition
"loaded changes = `canon`" is tied to `Spec.run` by the differential run.
-/
namespace Wellen.VcdBody
open Wellen.Bits

/-- `parse_body` = token interpreter, for every byte string -/
theorem C01_lexing (bs : List Nat) (nl : Bool) : parseBody none bs nl = tokenSpec bs nl :=
  parseBody_eq_tokenSpec bs nl

/-- a value token's characters come back lower-cased, whatever kind they are stored in -/
theorem C01_chars (c : Fin 256) (v : Nat) (h : bitCharToNum c.val = some v) :
    v < 9 ∧ Gen.lookup9[v]? = some (toLower c.val) :=
  bitChar_lookup c v h

/-- the timestamps accepted by the token classifier are exactly `#` + decimal digits (optional `+`) below 2^64
(`$dumpall` is an ignored bracket like `$dumpvars` since fix F24) -/
theorem C01_time_tokens (tok : List Nat) (t : Nat) (h : parseFirst tok = .time t) :
    ∃ rest, tok = 35 :: rest ∧ parseNat rest = some t := by
  unfold parseFirst at h
  cases tok with
  | nil => cases h
  | cons c rest =>
    simp only at h
    by_cases hc : c = 35
    · simp only [hc, ↓reduceIte] at h
      refine ⟨rest, by rw [hc], ?_⟩
      cases hp : parseNat rest with
      | none => rw [hp] at h; cases h
      | some t' => rw [hp] at h; simp at h; rw [h]
    · simp only [hc, ↓reduceIte] at h
      by_cases h1 : oneBitChars.contains c = true
      · simp only [h1, ↓reduceIte] at h; cases h
      · simp only [h1, Bool.false_eq_true, ↓reduceIte] at h
        by_cases h2 : multiBitChars.contains c = true
        · simp only [h2, ↓reduceIte] at h; cases h
        · simp only [h2, Bool.false_eq_true, ↓reduceIte] at h
          by_cases h4 : c :: rest = kwComment
          · simp only [h4, ↓reduceIte] at h; cases h
          · simp only [h4, ↓reduceIte] at h
            split at h <;> cases h

/-- a body that loads (single-threaded) is the store run on the operations of its tokens -/
theorem C01_load_is_store_run (c : Store.Codec) (d : Decls) (rm : RealMap) (body : List Nat) (enc : Store.Enc)
    (h : readValues c d rm body .single = .ok enc) :
    ∃ evs ops, tokenSpec body = .ok evs ∧ opsOfEvs d rm (implicitZero evs) = some ops ∧
      Spec.runOps c (Store.newEnc d.sigTypes) ops = some enc := by
  simp only [readValues] at h
  obtain ⟨evs, ops, hp, ho, hr⟩ := readStream_first_ok c d rm body _ false enc h
  rw [parseBody_stop_irrelevant body (body.length - 1) false (by omega), C01_lexing] at hp
  exact ⟨evs, ops, hp, ho, hr⟩

/-- ... and its time table is the list of timestamp tokens greater than all earlier ones (with a leading 0 when the body starts
with a value change) -/
theorem C01_time_table (c : Store.Codec) (d : Decls) (rm : RealMap) (body : List Nat) (enc : Store.Enc)
    (h : readValues c d rm body .single = .ok enc) :
    ∃ evs, tokenSpec body = .ok evs ∧ (Store.finish c enc).2 = Spec.strictPrefixMax (evTimes (implicitZero evs)) := by
  obtain ⟨evs, hp, ht⟩ := single_load_time_table c d rm body enc h
  rw [C01_lexing] at hp
  exact ⟨evs, hp, ht⟩

/-- a later chunk of a multi-threaded load: the values in front of its first timestamp belong to its predecessor -/
theorem C01_later_chunk (c : Store.Codec) (d : Decls) (rm : RealMap) (e : Store.Enc) (evs : List Ev) :
    (applyEvs c d rm { enc := e, isFirst := false } evs).map (·.enc) =
      (opsOfEvs d rm (fromFirstTime evs)).bind (Spec.runOps c e) :=
  applyEvs_later c d rm e evs

/-! non-vacuity: a small body through both sides -/
example : opsOfEvs { useMap := false, mapIds := [], varSig := [], sigTypes := [] } [] (implicitZero [.value [49] [33], .time 5]) =
    some [.time 0, .vcd 0 [49] none, .time 5] := by rfl

example : parseBody none [10, 35, 53, 10, 49, 33, 10, 98, 49, 48, 32, 34, 10] =
    .ok [.time 5, .value [49] [33], .value [98, 49, 48] [34]] := by decide
example : tokenSpec [10, 35, 53, 10, 49, 33, 10, 98, 49, 48, 32, 34, 10] =
    .ok [.time 5, .value [49] [33], .value [98, 49, 48] [34]] := by decide

end Wellen.VcdBody
