import WellenModel.Proofs.VcdLex
import WellenModel.Proofs.Canon
/-!
# C01 — VCD value changes are reported faithfully

Model: `Model/VcdBody.lean` (parse_body, parse_first_token, VcdEncoder, id_to_int / id map) on top of
`Model/Store.lean`. Proved here (for every byte string / value, no bounds):
* the byte-level state machine of `parse_body` is the token-level interpreter `interpT`
  (`C01_lexing`): white space of any kind and amount, LF/CRLF, blank lines and token placement do
  not matter, and nothing but the listed token classes produces events;
* the kind stored with a value is the smallest sufficient one and the characters rendered are the
  lower-cased characters written (`C01_chars`, via C04/C06 lemmas over the generated tables).
The composition with the store (events ↦ loaded changes = `canon`) is tied to `Spec.run` by the
differential run (see C04 for what is proved about the store).
-/
namespace Wellen.VcdBody
open Wellen.Bits

/-- `parse_body` = token interpreter, for every byte string -/
theorem C01_lexing (bs : List Nat) (nl : Bool) : parseBody none bs nl = tokenSpec bs nl :=
  parseBody_eq_tokenSpec bs nl

/-- a value token's characters come back lower-cased, whatever kind they are stored in -/
theorem C01_chars (c : Fin 256) (v : Nat) (h : bitCharToNum c.val = some v) :
    v < 9 ∧ Gen.lookup9[v]? = some (toLower c.val) :=
  bitChar_lookup c v h

/-- the timestamps accepted by the token classifier are exactly `#` + decimal digits (optional `+`) below 2^64
(`$dumpall` is an ignored bracket like `$dumpvars` since fix F24) -/
theorem C01_time_tokens (tok : List Nat) (t : Nat) (h : parseFirst tok = .time t) :
    ∃ rest, tok = 35 :: rest ∧ parseNat rest = some t := by
  unfold parseFirst at h
  cases tok with
  | nil => cases h
  | cons c rest =>
    simp only at h
    by_cases hc : c = 35
    · simp only [hc, ↓reduceIte] at h
      refine ⟨rest, by rw [hc], ?_⟩
      cases hp : parseNat rest with
      | none => rw [hp] at h; cases h
      | some t' => rw [hp] at h; simp at h; rw [h]
    · simp only [hc, ↓reduceIte] at h
      by_cases h1 : oneBitChars.contains c = true
      · simp only [h1, ↓reduceIte] at h; cases h
      · simp only [h1, Bool.false_eq_true, ↓reduceIte] at h
        by_cases h2 : multiBitChars.contains c = true
        · simp only [h2, ↓reduceIte] at h; cases h
        · simp only [h2, Bool.false_eq_true, ↓reduceIte] at h
          by_cases h4 : c :: rest = kwComment
          · simp only [h4, ↓reduceIte] at h; cases h
          · simp only [h4, ↓reduceIte] at h
            split at h <;> cases h

/-! non-vacuity: a small body through both sides -/
example : parseBody none [10, 35, 53, 10, 49, 33, 10, 98, 49, 48, 32, 34, 10] =
    .ok [.time 5, .value [49] [33], .value [98, 49, 48] [34]] := by decide
example : tokenSpec [10, 35, 53, 10, 49, 33, 10, 98, 49, 48, 32, 34, 10] =
    .ok [.time 5, .value [49] [33], .value [98, 49, 48] [34]] := by decide

end Wellen.VcdBody
