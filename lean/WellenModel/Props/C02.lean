import WellenModel.Proofs.TimeTable
/-!
# C02 — the time table is the strictly increasing list of recorded time steps

Model: `Encoder::{time_change, finish_block, finish, combine_time_tables}` and the value-change
entry points (wavemem.rs 453-595) in `Model/Store.lean`; `blockMax` (= `BlockTimeIdx::MAX`) is a
parameter of the model: the theorems hold for every block size and every number of time steps.
-/
namespace Wellen.Spec
open Wellen.Bits Wellen.Store

/-- **exactness**: after any history of time / value operations that the encoder accepts, the
table returned by `finish` is exactly the list of timestamps greater than all earlier ones
(each once) — whatever the block size, hence across every multiple of 65535. -/
theorem C02_timeTable_exact (c : Codec) (tps : List SigType) (ops : List Op) (e : Enc)
    (h : runOps c (newEnc tps) ops = some e) :
    (finish c e).2 = strictPrefixMax (timesOf ops) := by
  obtain ⟨hi0, ht0⟩ := newEnc_inv tps
  obtain ⟨hi, ht⟩ := runOps_table c ops (newEnc tps) e [] hi0 (by rw [ht0]; rfl) h
  rw [finish_table c e hi, ht]; simp

/-- **strictly increasing** -/
theorem C02_timeTable_strict (c : Codec) (tps : List SigType) (ops : List Op) (e : Enc)
    (h : runOps c (newEnc tps) ops = some e) :
    ((finish c e).2).Pairwise (· < ·) := by
  rw [C02_timeTable_exact c tps ops e h]; exact spm_pairwise _

/-- what `strictPrefixMax` means: `t` is in the table iff some occurrence of `t` in the history
is greater than every timestamp before it. -/
theorem mem_go_iff (m x : Nat) (r : List Nat) :
    x ∈ strictPrefixMax.go m r ↔ ∃ pre post, r = pre ++ x :: post ∧ m < x ∧ ∀ y ∈ pre, y < x := by
  induction r generalizing m with
  | nil => simp [strictPrefixMax.go]
  | cons u r ih =>
    simp only [strictPrefixMax.go]
    by_cases hu : u > m
    · rw [if_pos hu]
      constructor
      · intro hx
        rcases List.mem_cons.mp hx with rfl | hx
        · exact ⟨[], r, rfl, hu, by simp⟩
        · obtain ⟨pre, post, h1, h2, h3⟩ := (ih u).mp hx
          refine ⟨u :: pre, post, by simp [h1], by omega, ?_⟩
          intro y hy
          rcases List.mem_cons.mp hy with rfl | hy
          · exact h2
          · exact h3 y hy
      · rintro ⟨pre, post, h1, h2, h3⟩
        cases pre with
        | nil => simp at h1; rw [h1.1]; simp
        | cons p pre =>
          simp at h1
          apply List.mem_cons_of_mem
          rw [h1.1]
          exact (ih p).mpr ⟨pre, post, h1.2, h3 p (by simp), fun y hy => h3 y (by simp [hy])⟩
    · rw [if_neg hu]
      constructor
      · intro hx
        obtain ⟨pre, post, h1, h2, h3⟩ := (ih m).mp hx
        refine ⟨u :: pre, post, by simp [h1], h2, ?_⟩
        intro y hy
        rcases List.mem_cons.mp hy with rfl | hy
        · omega
        · exact h3 y hy
      · rintro ⟨pre, post, h1, h2, h3⟩
        cases pre with
        | nil => simp at h1; omega
        | cons p pre =>
          simp at h1
          exact (ih m).mpr ⟨pre, post, h1.2, h2, fun y hy => h3 y (by simp [hy])⟩

theorem C02_mem_iff (ts : List Nat) (x : Nat) :
    x ∈ strictPrefixMax ts ↔ ∃ pre post, ts = pre ++ x :: post ∧ ∀ y ∈ pre, y < x := by
  cases ts with
  | nil => simp [strictPrefixMax]
  | cons t0 r =>
    simp only [strictPrefixMax, List.mem_cons]
    constructor
    · rintro (rfl | hx)
      · exact ⟨[], r, rfl, by simp⟩
      · obtain ⟨pre, post, h1, h2, h3⟩ := (mem_go_iff t0 x r).mp hx
        refine ⟨t0 :: pre, post, by simp [h1], ?_⟩
        intro y hy
        rcases List.mem_cons.mp hy with rfl | hy
        · exact h2
        · exact h3 y hy
    · rintro ⟨pre, post, h1, h3⟩
      cases pre with
      | nil => simp at h1; left; exact h1.1.symm
      | cons p pre =>
        simp at h1
        right
        rw [h1.1]
        exact (mem_go_iff p x r).mpr ⟨pre, post, h1.2, h3 p (by simp), fun y hy => h3 y (by simp [hy])⟩

/-! ### every reported change carries a valid time index (on the waveform a history denotes) -/

/-- invariant of the abstract interpreter: the table length is tracked exactly and every recorded index is below it -/
def SpecInv (s : St) : Prop :=
  s.ttLen = s.ttRev.length ∧ ∀ l ∈ s.changesRev.toList, ∀ p ∈ l, p.1 < s.ttLen

theorem record_inv (s s' : St) (id : Nat) (v : Value) (hi : SpecInv s) (hne : s.ttRev ≠ [])
    (h : record s id v = some s') : SpecInv s' ∧ s'.ttRev = s.ttRev := by
  unfold record at h
  split at h
  · rename_i hid
    cases h
    refine ⟨⟨hi.1, ?_⟩, rfl⟩
    intro l hl p hp
    simp only at hl
    rw [Array.toList_set] at hl
    have hpos : 0 < s.ttLen := by
      rw [hi.1]; cases hr : s.ttRev with
      | nil => exact absurd hr hne
      | cons a r => simp
    rcases List.mem_or_eq_of_mem_set hl with hl | hl
    · exact hi.2 l hl p hp
    · subst hl
      rcases List.mem_cons.mp hp with rfl | hp
      · simp; omega
      · exact hi.2 _ (by simp [Array.getElem_mem_toList]) p hp
  · cases h

theorem step_inv (types : Array SigType) (s s' : St) (op : Op) (hi : SpecInv s) (h : step types s op = some s') :
    SpecInv s' := by
  have hrec : ∀ id v, ¬ (s.needNewMax ∨ s.ttRev.isEmpty = true) → (if s.skipping then some s else record s id v) = some s' → SpecInv s' := by
    intro id v hg hr
    split at hr
    · cases hr; exact hi
    · have hne : s.ttRev ≠ [] := by
        intro he; apply hg; right; simp [he]
      exact (record_inv s s' id v hi hne hr).1
  cases op with
  | time t =>
    simp only [step] at h
    split at h
    · cases h; refine ⟨by simp, ?_⟩
      intro l hl p hp
      have := hi.2 l hl p hp
      rename_i hr
      rw [hi.1, hr] at this; simp at this
    · rename_i m r hr
      split at h
      · cases h
        refine ⟨by simp [hi.1], ?_⟩
        intro l hl p hp
        have := hi.2 l hl p hp
        simp; omega
      · split at h
        · cases h
        · split at h
          · cases h; exact ⟨hi.1, hi.2⟩
          · cases h; exact ⟨hi.1, hi.2⟩
  | split =>
    simp only [step] at h
    split at h
    · cases h; exact hi
    · cases h; exact ⟨hi.1, hi.2⟩
  | vcd id value realLe =>
    simp only [step] at h
    split at h
    · cases h
    · rename_i hg
      split at h
      · cases h
      · split at h
        · cases h
        · exact hrec id _ hg h
  | raw id st bytes =>
    simp only [step] at h
    split at h
    · cases h
    · rename_i hg
      split at h
      · cases h
      · split at h
        · cases h
        · exact hrec id _ hg h
  | real id le =>
    simp only [step] at h
    split at h
    · cases h
    · rename_i hg
      split at h
      · split at h
        · exact hrec id _ hg h
        · cases h
      · cases h

theorem canon_subset (l : List (Nat × Value)) : ∀ p ∈ canon l, p ∈ l := by
  cases l with
  | nil => intro p hp; simp [canon] at hp
  | cons x r =>
    intro p hp
    simp only [canon] at hp
    rcases List.mem_cons.mp hp with h | h
    · simp [h]
    · have : ∀ (prev : Value) (r : List (Nat × Value)), ∀ z ∈ canon.go prev r, z ∈ r := by
        intro prev r
        induction r generalizing prev with
        | nil => intro z hz; simp [canon.go] at hz
        | cons y r ih =>
          intro z hz
          simp only [canon.go] at hz
          split at hz
          · exact List.mem_cons_of_mem _ (ih prev z hz)
          · rcases List.mem_cons.mp hz with h | h
            · simp [h]
            · exact List.mem_cons_of_mem _ (ih y.2 z h)
      exact List.mem_cons_of_mem _ (this x.2 r p h)

/-- **every change of the waveform a history denotes carries an index into its time table** -/
theorem C02_indices_valid (types : List SigType) (ops : List Op) (tt : List Nat) (sigs : List (List (Nat × Value)))
    (h : run types ops = some (tt, sigs)) : ∀ l ∈ sigs, ∀ p ∈ l, p.1 < tt.length := by
  unfold run at h
  simp only at h
  have hfold : ∀ (ops : List Op) (s0 : St), SpecInv s0 →
      ∀ s, ops.foldl (fun acc op => acc.bind (fun s => step types.toArray s op)) (some s0) = some s → SpecInv s := by
    intro ops
    induction ops with
    | nil => intro s0 h0 s hs; simp at hs; subst hs; exact h0
    | cons op r ih =>
      intro s0 h0 s hs
      simp only [List.foldl_cons, Option.bind_some] at hs
      cases hst : step types.toArray s0 op with
      | none =>
        rw [hst] at hs
        have : ∀ (r : List Op), r.foldl (fun acc op => acc.bind (fun s => step types.toArray s op)) (none : Option St) = none := by
          intro r; induction r with
          | nil => rfl
          | cons a r ih => simpa using ih
        rw [this] at hs; cases hs
      | some s1 => rw [hst] at hs; exact ih s1 (step_inv _ _ _ _ h0 hst) s hs
  split at h
  · cases h
  · rename_i s hs
    split at h
    · cases h
    · cases h
      have hinv := hfold ops _ (by
        refine ⟨by simp, ?_⟩
        intro l hl p hp
        simp at hl
        obtain ⟨_, _, rfl⟩ := hl
        cases hp) s hs
      intro l hl p hp
      simp only [List.mem_map] at hl
      obtain ⟨l0, hl0, rfl⟩ := hl
      have hp' := canon_subset _ p hp
      have := hinv.2 l0 hl0 p (by simpa using hp')
      rw [hinv.1] at this
      simpa using this

/-- non-vacuity: a history with repeated and backwards timestamps is accepted by the encoder -/
example : strictPrefixMax [5, 7, 7, 3, 7, 9] = [5, 7, 9] := by decide

end Wellen.Spec
