import WellenModel.Proofs.TimeTable
/-!
# C02 — the time table is the strictly increasing list of recorded time steps

Model: `Encoder::{time_change, finish_block, finish, combine_time_tables}` and the value-change
entry points (wavemem.rs 453-595) in `Model/Store.lean`; `blockMax` (= `BlockTimeIdx::MAX`) is a
parameter of the model: the theorems hold for every block size and every number of time steps.
-/
namespace Wellen.Spec
open Wellen.Bits Wellen.Store

/-- **exactness**: after any history of time / value operations that the encoder accepts, the
table returned by `finish` is exactly the list of timestamps greater than all earlier ones
(each once) — whatever the block size, hence across every multiple of 65535. -/
theorem C02_timeTable_exact (c : Codec) (tps : List SigType) (ops : List Op) (e : Enc)
    (h : runOps c (newEnc tps) ops = some e) :
    (finish c e).2 = strictPrefixMax (timesOf ops) := by
  obtain ⟨hi0, ht0⟩ := newEnc_inv tps
  obtain ⟨hi, ht⟩ := runOps_table c ops (newEnc tps) e [] hi0 (by rw [ht0]; rfl) h
  rw [finish_table c e hi, ht]; simp

/-- **strictly increasing** -/
theorem C02_timeTable_strict (c : Codec) (tps : List SigType) (ops : List Op) (e : Enc)
    (h : runOps c (newEnc tps) ops = some e) :
    ((finish c e).2).Pairwise (· < ·) := by
  rw [C02_timeTable_exact c tps ops e h]; exact spm_pairwise _

/-- what `strictPrefixMax` means: `t` is in the table iff some occurrence of `t` in the history
is greater than every timestamp before it. -/
theorem mem_go_iff (m x : Nat) (r : List Nat) :
    x ∈ strictPrefixMax.go m r ↔ ∃ pre post, r = pre ++ x :: post ∧ m < x ∧ ∀ y ∈ pre, y < x := by
  induction r generalizing m with
  | nil => simp [strictPrefixMax.go]
  | cons u r ih =>
    simp only [strictPrefixMax.go]
    by_cases hu : u > m
    · rw [if_pos hu]
      constructor
      · intro hx
        rcases List.mem_cons.mp hx with rfl | hx
        · exact ⟨[], r, rfl, hu, by simp⟩
        · obtain ⟨pre, post, h1, h2, h3⟩ := (ih u).mp hx
          refine ⟨u :: pre, post, by simp [h1], by omega, ?_⟩
          intro y hy
          rcases List.mem_cons.mp hy with rfl | hy
          · exact h2
          · exact h3 y hy
      · rintro ⟨pre, post, h1, h2, h3⟩
        cases pre with
        | nil => simp at h1; rw [h1.1]; simp
        | cons p pre =>
          simp at h1
          apply List.mem_cons_of_mem
          rw [h1.1]
          exact (ih p).mpr ⟨pre, post, h1.2, h3 p (by simp), fun y hy => h3 y (by simp [hy])⟩
    · rw [if_neg hu]
      constructor
      · intro hx
        obtain ⟨pre, post, h1, h2, h3⟩ := (ih m).mp hx
        refine ⟨u :: pre, post, by simp [h1], h2, ?_⟩
        intro y hy
        rcases List.mem_cons.mp hy with rfl | hy
        · omega
        · exact h3 y hy
      · rintro ⟨pre, post, h1, h2, h3⟩
        cases pre with
        | nil => simp at h1; omega
        | cons p pre =>
          simp at h1
          exact (ih m).mpr ⟨pre, post, h1.2, h2, fun y hy => h3 y (by simp [hy])⟩

theorem C02_mem_iff (ts : List Nat) (x : Nat) :
    x ∈ strictPrefixMax ts ↔ ∃ pre post, ts = pre ++ x :: post ∧ ∀ y ∈ pre, y < x := by
  cases ts with
  | nil => simp [strictPrefixMax]
  | cons t0 r =>
    simp only [strictPrefixMax, List.mem_cons]
    constructor
    · rintro (rfl | hx)
      · exact ⟨[], r, rfl, by simp⟩
      · obtain ⟨pre, post, h1, h2, h3⟩ := (mem_go_iff t0 x r).mp hx
        refine ⟨t0 :: pre, post, by simp [h1], ?_⟩
        intro y hy
        rcases List.mem_cons.mp hy with rfl | hy
        · exact h2
        · exact h3 y hy
    · rintro ⟨pre, post, h1, h3⟩
      cases pre with
      | nil => simp at h1; left; exact h1.1.symm
      | cons p pre =>
        simp at h1
        right
        rw [h1.1]
        exact (mem_go_iff p x r).mpr ⟨pre, post, h1.2, h3 p (by simp), fun y hy => h3 y (by simp [hy])⟩

/-- non-vacuity: a history with repeated and backwards timestamps is accepted by the encoder -/
example : strictPrefixMax [5, 7, 7, 3, 7, 9] = [5, 7, 9] := by decide

end Wellen.Spec
