import WellenModel.Model.Py
import WellenModel.Props.C05
/-!
# C18 — the Python binding reports what the Rust API reports

Model: `Model/Py.lean` (pywellen/src/lib.rs after the fixes F16 / F17) on top of the proved model of
`Signal::get_offset` (C05). Values are identified by their position in the Rust signal's change
list, so "the value of the latest change at or before …" is a statement about positions.
pyo3's conversions (BigUint → int, Option → None, str) are trusted and validated through CPython.
-/
namespace Wellen.Py
open Wellen.Offset

/-- `value_at_idx(i)` is `None` exactly when the signal has no change at an index `≤ i` -/
theorem C18_valueAtIdx_none (a : Array Nat) (i : Nat) (hs : Sorted a) (h : ∀ j, j < a.size → i < a[j]!) :
    valueAtIdx a i = none := by
  have := (C05_none_iff a i hs).mpr h
  simp [valueAtIdx, this]

/-- otherwise it is the value of the LATEST change at or before index `i` (the last element of the
delta-cycle group), provided fewer than 65536 changes share one index (finding F18 of C05) -/
theorem C18_valueAtIdx_latest (a : Array Nat) (i : Nat) (hs : Sorted a)
    (hex : ∃ j, j < a.size ∧ a[j]! ≤ i)
    (hsmall : ∀ d n, GroupSpec a i d n → n < 65536) :
    ∃ p, valueAtIdx a i = some p ∧ p < a.size ∧ a[p]! ≤ i ∧ ∀ q, p < q → q < a.size → i < a[q]! := by
  obtain ⟨d, n, hd, hg⟩ := C05_group a i hs hex
  have hn := hsmall d n hg
  have hel := C05_elements_exact a i d n hg hn
  have hnpos := hg.n_pos
  have hnle := hg.n_le
  refine ⟨d.start + (n - 1), ?_, by omega, ?_, ?_⟩
  · simp only [valueAtIdx, hd, hel]
    have : ¬ n = 0 := by omega
    simp [this]
  · have := (hg.group (d.start + (n - 1)) (by omega)).mpr ⟨by omega, by omega⟩
    rw [this]; exact hg.le_needle
  · intro q hq1 hq2
    -- q is beyond the group: its index differs from the group's and is not smaller, and the group's is the greatest ≤ i
    have hne : a[q]! ≠ a[d.start]! := by
      intro he
      have := (hg.group q hq2).mp he
      omega
    have hge := hs d.start q (by omega) hq2
    rcases Nat.lt_or_ge i a[q]! with h | h
    · exact h
    · have := hg.greatest q hq2 h
      omega

/-- the time table search: `Ok(i)` points at `t`; `Err(p)` splits the table into entries `< t` and `> t` -/
theorem takeWhile_lt_spec (tt : List Nat) (t : Nat) :
    (∀ k, k < (tt.takeWhile (· < t)).length → ∃ v, tt[k]? = some v ∧ v < t) ∧
    (∀ v, tt[(tt.takeWhile (· < t)).length]? = some v → t ≤ v) := by
  induction tt with
  | nil => simp
  | cons a r ih =>
    by_cases ha : a < t
    · simp only [List.takeWhile_cons, ha, decide_true, ↓reduceIte, List.length_cons]
      constructor
      · intro k hk
        cases k with
        | zero => exact ⟨a, by simp, ha⟩
        | succ k => simpa using ih.1 k (by omega)
      · intro v hv; simpa using ih.2 v (by simpa using hv)
    · simp only [List.takeWhile_cons, ha, decide_false, Bool.false_eq_true, ↓reduceIte, List.length_nil]
      constructor
      · intro k hk; omega
      · intro v hv; simp at hv; omega

/-- `value_at_time(t)` looks up the index of the greatest time table entry `≤ t`: every entry
before the returned index is `≤ t`, every later entry is `> t`; `None` before the first entry -/
theorem C18_valueAtTime_index (tt : List Nat) (a : Array Nat) (t : Nat) (hs : tt.Pairwise (· < ·)) :
    (∃ i, valueAtTime tt a t = valueAtIdx a i ∧ (∃ v, tt[i]? = some v ∧ v ≤ t) ∧
        ∀ (k v : Nat), i < k → tt[k]? = some v → t < v) ∨
    (valueAtTime tt a t = none ∧ ∀ (k v : Nat), tt[k]? = some v → t < v) := by
  obtain ⟨h1, h2⟩ := takeWhile_lt_spec tt t
  have hsorted : ∀ (i j u v : Nat), i < j → tt[i]? = some u → tt[j]? = some v → u < v := by
    intro i j u v hij hu hv
    have := List.pairwise_iff_getElem.mp hs i j
    have hi : i < tt.length := by
      rcases Nat.lt_or_ge i tt.length with h | h
      · exact h
      · rw [List.getElem?_eq_none h] at hu; cases hu
    have hj : j < tt.length := by
      rcases Nat.lt_or_ge j tt.length with h | h
      · exact h
      · rw [List.getElem?_eq_none h] at hv; cases hv
    have h3 := this hi hj hij
    rw [List.getElem?_eq_getElem hi] at hu
    rw [List.getElem?_eq_getElem hj] at hv
    simp at hu hv
    omega
  simp only [valueAtTime, binSearch]
  by_cases hf : tt[(tt.takeWhile (· < t)).length]? = some t
  · simp only [hf, ↓reduceIte]
    left
    refine ⟨_, rfl, ⟨t, hf, Nat.le_refl _⟩, ?_⟩
    intro k v hk hv
    exact hsorted _ k t v hk hf hv
  · simp only [hf, ↓reduceIte]
    cases hp : (tt.takeWhile (· < t)).length with
    | zero =>
      right
      refine ⟨rfl, ?_⟩
      intro k v hv
      rw [hp] at h2 hf
      cases k with
      | zero =>
        have := h2 v hv
        rcases Nat.lt_or_ge t v with h | h
        · exact h
        · have : v = t := by omega
          subst this; exact absurd hv hf
      | succ k =>
        cases h0 : tt[0]? with
        | none =>
          have : tt.length = 0 := by
            cases tt with
            | nil => rfl
            | cons a r => simp at h0
          rw [List.getElem?_eq_none (by omega)] at hv; cases hv
        | some u =>
          have hu := h2 u h0
          have := hsorted 0 (k + 1) u v (by omega) h0 hv
          omega
    | succ p =>
      left
      rw [hp] at h1 h2 hf
      obtain ⟨u, hu1, hu2⟩ := h1 p (by omega)
      refine ⟨p, rfl, ⟨u, hu1, by omega⟩, ?_⟩
      intro k v hk hv
      by_cases hkp : k = p + 1
      · subst hkp
        have := h2 v hv
        rcases Nat.lt_or_ge t v with h | h
        · exact h
        · have : v = t := by omega
          subst this; exact absurd hv hf
      · cases hq : tt[p + 1]? with
        | none =>
          have : tt.length ≤ p + 1 := by
            rcases Nat.lt_or_ge (p + 1) tt.length with h | h
            · rw [List.getElem?_eq_getElem h] at hq; cases hq
            · exact h
          rw [List.getElem?_eq_none (by omega)] at hv; cases hv
        | some w =>
          have hw := h2 w hq
          have := hsorted (p + 1) k w v (by omega) hq hv
          omega

/-- `TimeTable.__getitem__` follows Python's conventions, including negative indices -/
theorem C18_py_index (tt : List Nat) (k : Nat) (hk : k < tt.length) :
    ttGetItem tt (k : Int) = tt[k]? ∧ ttGetItem tt (-(k : Int) - 1) = tt[tt.length - 1 - k]? := by
  constructor
  · have h0 : ¬ ((k : Int) < 0) := by omega
    simp [ttGetItem, h0]
  · simp only [ttGetItem]
    have h1 : (-(k : Int) - 1 < 0) := by omega
    have h2 : ¬ (-(k : Int) - 1 + (tt.length : Int) < 0) := by omega
    simp only [h1, ↓reduceIte, h2]
    congr 1
    omega

/-- non-vacuity: a time strictly between two table entries is answered from the earlier step;
before the first entry there is no value -/
example : binSearch [10, 20] 15 = .inr 1 ∧ binSearch [10, 20] 20 = .inl 1 ∧ binSearch [10, 20] 5 = .inr 0 := by decide
example : specValueAtTime [10, 20] [0, 0, 0, 1] 15 = some 2 ∧ specValueAtTime [10, 20] [0, 0, 0, 1] 5 = none := by decide
example : ttGetItem [10, 20, 30] (-1) = some 30 ∧ ttGetItem [10, 20, 30] (-4) = none := by decide

end Wellen.Py
