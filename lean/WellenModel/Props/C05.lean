import WellenModel.Proofs.Offset
/-!
# C05 — point queries return the latest change at or before the requested index

Model: `WellenModel/Model/Offset.lean` (signals.rs 226-282, 470-524).  All statements are for
every non-decreasing index array of any length and every query index.
-/
namespace Wellen.Offset

/-- `get_offset` never panics (no usize underflow, no out-of-bounds index). -/
theorem C05_never_panics (a : Array Nat) (i : Nat) (hs : Sorted a) : getOffset a i ≠ none :=
  getOffset_total a i hs

/-- `None` exactly when the signal has no change at an index `≤ i`. -/
theorem C05_none_iff (a : Array Nat) (i : Nat) (hs : Sorted a) :
    getOffset a i = some none ↔ ∀ j, j < a.size → i < a[j]! := by
  unfold getOffset
  by_cases h0 : a.size = 0
  · simp [h0]
  · simp only [h0, ↓reduceIte]
    by_cases h1 : a[0]! > i
    · simp only [h1, ↓reduceIte, true_iff]
      intro j hj
      have := hs 0 j (by omega) hj
      omega
    · simp only [h1, ↓reduceIte]
      obtain ⟨d, n, hd, _⟩ := findOffset_spec a i hs (by omega) (by omega)
      simp only [hd]
      constructor
      · intro h; cases h
      · intro h; have := h 0 (by omega); omega

/-- Otherwise the result designates the group of the greatest index `≤ i`:
`start` first of the group, `n` its size (`elements = n mod 2^16`), `time_match`, `next_index`. -/
theorem C05_group (a : Array Nat) (i : Nat) (hs : Sorted a)
    (hex : ∃ j, j < a.size ∧ a[j]! ≤ i) :
    ∃ d n, getOffset a i = some (some d) ∧ GroupSpec a i d n := by
  obtain ⟨j, hj, hji⟩ := hex
  have h0 : a[0]! ≤ i := by have := hs 0 j (by omega) hj; omega
  obtain ⟨d, n, hd, hg⟩ := findOffset_spec a i hs (by omega) h0
  refine ⟨d, n, ?_, hg⟩
  unfold getOffset
  have : ¬ a.size = 0 := by omega
  have h1 : ¬ a[0]! > i := by omega
  simp [this, h1, hd]

/-- `elements` is the exact group size whenever fewer than 65536 changes share one index. -/
theorem C05_elements_exact (a : Array Nat) (i : Nat) (d : DataOffset) (n : Nat)
    (h : GroupSpec a i d n) (hn : n < 65536) : d.elements = n := by
  rw [h.elements]; omega

/-- `next_index` is the index of the following group, strictly greater, absent after the last. -/
theorem C05_next (a : Array Nat) (i : Nat) (d : DataOffset) (n : Nat) (hs : Sorted a)
    (h : GroupSpec a i d n) :
    (d.start + n = a.size ∧ d.nextIndex = none) ∨
    (d.start + n < a.size ∧ d.nextIndex = some a[d.start + n]! ∧ a[d.start]! < a[d.start + n]!) := by
  have hle := h.n_le
  by_cases hc : d.start + n < a.size
  · right
    have hne : a[d.start + n]! ≠ a[d.start]! := by
      intro he
      have := (h.group (d.start + n) hc).mp he
      omega
    have hge := hs d.start (d.start + n) (by omega) hc
    have hlt : a[d.start]! < a[d.start + n]! := by omega
    refine ⟨hc, ?_, hlt⟩
    rw [h.next]; simp only [hc, ↓reduceIte, nonZero]
    have : ¬ a[d.start + n]! = 0 := by omega
    simp [this]
  · left
    refine ⟨by omega, ?_⟩
    rw [h.next]; simp [hc]

/-- `get_time_idx_at` and `get_value_at` agree with `time_indices` position by position:
element `e` of the group is data position `start + e`, whose time index is the group's. -/
theorem C05_value_pos (a : Array Nat) (i : Nat) (d : DataOffset) (n e : Nat)
    (h : GroupSpec a i d n) (hn : n < 65536) (he : e < n) :
    valuePos d e = some (d.start + e) ∧ a[d.start + e]! = getTimeIdxAt a d := by
  have := C05_elements_exact a i d n h hn
  constructor
  · simp [valuePos, this, he]
  · exact (h.group (d.start + e) (by have := h.n_le; omega)).mpr ⟨by omega, by omega⟩

/-- `iter_changes` yields `(time_indices[p], value p)` for `p = 0 .. len-1` in order. -/
theorem C05_iter (a : Array Nat) :
    (iterChanges a).length = a.size ∧
    ∀ p, (h : p < (iterChanges a).length) → (iterChanges a)[p] = (a[p]!, p) := by
  constructor
  · simp [iterChanges]
  · intro p h; simp [iterChanges]

/-- F18 (known finding): the `u16` field wraps — stated for any array whose group has 65536
members: the reported `elements` is 0, so `get_value_at(offset, 0)` fails its assertion. -/
theorem C05_elements_wraps (a : Array Nat) (i : Nat) (d : DataOffset)
    (h : GroupSpec a i d 65536) : d.elements = 0 ∧ valuePos d 0 = none := by
  have : d.elements = 0 := by rw [h.elements]
  simp [valuePos, this]

/-! non-vacuity: a concrete sorted array with delta-cycle runs at start, middle and end meets
the hypotheses of every theorem above (the evaluated results are checked by the driver run). -/
example : Sorted #[2, 2, 5, 5, 5, 9] := sorted_of_sortedB _ (by decide)
example : ∃ j, j < (#[2, 2, 5, 5, 5, 9] : Array Nat).size ∧ (#[2, 2, 5, 5, 5, 9] : Array Nat)[j]! ≤ 7 :=
  ⟨2, by decide, by decide⟩
example : ∃ d n, getOffset #[2, 2, 5, 5, 5, 9] 7 = some (some d) ∧ GroupSpec #[2, 2, 5, 5, 5, 9] 7 d n :=
  C05_group _ _ (sorted_of_sortedB _ (by decide)) ⟨2, by decide, by decide⟩

end Wellen.Offset
