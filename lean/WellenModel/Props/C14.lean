import WellenModel.Proofs.VcdStop
/-!
# C14 — all entry points load the same waveform (VCD body driver part)

The memory-mapped path parses the body with stop position `len − 1`, the stream path with the
length of the whole file; both are at or beyond the end of the body, so both produce the events of
the unbounded parse (`C14_stop_irrelevant`) and hence the same encoder (`C14_reader_eq_mmap`).
Partial by nature: mmap / BufReader / Cursor semantics, the ProgressTracker pass-through and file
I/O are runtime behaviour no model exhibits; they are covered by the differential run only.
-/
namespace Wellen.VcdBody
open Wellen.Store

theorem C14_stop_irrelevant (bs : List Nat) (s : Nat) (nl : Bool) (h : bs.length ≤ s + 2) :
    parseBody (some s) bs nl = parseBody none bs nl :=
  parseBody_stop_irrelevant bs s nl h

/-- the stream entry point and the memory-mapped single-threaded entry point produce the same result: the same encoder
(time table, blocks, pending block — every field), or the same error / panic class -/
theorem C14_reader_eq_mmap (c : Codec) (d : Decls) (rm : RealMap) (body : List Nat) (fileLen : Nat)
    (hf : body.length ≤ fileLen) :
    readValues c d rm body (.reader fileLen) = readValues c d rm body .single := by
  simp only [readValues, readStream]
  rw [C14_stop_irrelevant body fileLen false (by omega), C14_stop_irrelevant body (body.length - 1) false (by omega)]

/-- the debug-assertion build takes the same path (the model has no build-dependent branch in the body driver) -/
theorem C14_checked_eq_release (c : Codec) (d : Decls) (rm : RealMap) (body : List Nat) :
    readValues c d rm body .singleChecked = readValues c d rm body .single := rfl

example : parseBody (some 12) [10, 35, 53, 10, 49, 33, 10, 98, 49, 48, 32, 34, 10] =
    parseBody (some 100) [10, 35, 53, 10, 49, 33, 10, 98, 49, 48, 32, 34, 10] := by decide

end Wellen.VcdBody
