import WellenModel.Proofs.Canon
import WellenModel.Proofs.EntryRoundtrip
/-!
# C06 — loaded signals are in canonical form

* the specification every loader is compared with (`Spec.run`, `Spec.canon`) yields lists without
  consecutive equal values, drops nothing but immediate repetitions, and reports the smallest kind;
* the loader's byte-wise de-duplication (`check_if_changed_and_truncate`, modelled by `Acc.push`)
  never leaves two equal consecutive entries, and two entries are byte-equal exactly when they hold
  the same symbols in the same kind (`C06_entry_injective`) — so it removes exactly the repetitions;
* the kind chosen when writing (`check_states`) is the smallest sufficient one, and a rendered value
  has exactly the declared width.
-/
namespace Wellen.Spec
open Wellen.Bits Wellen.Store

/-- no two consecutive changes carry the same value, for every signal of every history -/
theorem C06_no_repeat (types : List SigType) (ops : List Op) (tt : List Nat)
    (sigs : List (List (Nat × Value))) (h : run types ops = some (tt, sigs)) :
    ∀ l ∈ sigs, noAdjRepeat l := by
  unfold run at h
  simp only at h
  split at h
  · cases h
  · split at h
    · cases h
    · simp at h
      intro l hl
      rw [← h.2] at hl
      simp at hl
      obtain ⟨a, _, rfl⟩ := hl
      exact canon_noAdjRepeat _

/-- nothing but immediate repetitions is removed, nothing is added or reordered -/
theorem C06_only_repeats_dropped (l : List (Nat × Value)) :
    (canon l).Sublist l ∧ (noAdjRepeat l → canon l = l) :=
  ⟨canon_sublist l, canon_id l⟩

/-- Binary iff only 0/1; FourValue iff some x/z and nothing above; NineValue otherwise -/
theorem C06_kind_minimal (syms : List Nat) :
    (kindOf syms = .two ↔ ∀ v ∈ syms, v ≤ 1) ∧
    (kindOf syms = .four ↔ (∀ v ∈ syms, v ≤ 3) ∧ ∃ v ∈ syms, 2 ≤ v) :=
  ⟨kindOf_two syms, kindOf_four syms⟩

/-- the kind stored with a value when it is written is that smallest kind -/
theorem C06_write_kind_minimal (chars : List Nat) (st : States) (h : checkStates chars = some st) :
    ∃ nums, charsToNums chars = some nums ∧ st = kindOf nums :=
  checkStates_minimal chars st h

/-- every rendered bit-vector value has exactly the declared width -/
theorem C06_width (s : States) (d : List Nat) (bits : Nat) (hd : d.length = divCeil bits s.bib) :
    (toSyms s d bits).length = bits :=
  toSyms_length s d bits hd

/-- byte-equal entries hold the same symbols in the same kind (so the byte-wise comparison of
the loader drops a change exactly when the value is unchanged) -/
theorem C06_entry_injective (maxS l1 l2 : States) (s1 s2 : List Nat)
    (hlen : s1.length = s2.length) (hb : 2 ≤ s1.length)
    (hv1 : ∀ v ∈ s1, v < 2 ^ l1.bits) (hv2 : ∀ v ∈ s2, v < 2 ^ l2.bits)
    (hle1 : l1.toNat ≤ maxS.toNat) (hle2 : l2.toNat ≤ maxS.toNat)
    (he : alignEntry maxS l1 s1.length (writeNState l1 s1 none) =
          alignEntry maxS l2 s2.length (writeNState l2 s2 none)) : l1 = l2 ∧ s1 = s2 := by
  obtain ⟨d1, hd1, ht1⟩ := entry_roundtrip maxS l1 s1 hb hv1 hle1
  obtain ⟨d2, hd2, ht2⟩ := entry_roundtrip maxS l2 s2 (by omega) hv2 hle2
  rw [he, hlen] at hd1
  rw [hd1] at hd2
  simp at hd2
  obtain ⟨e1, e2⟩ := hd2
  subst e1 e2
  refine ⟨rfl, ?_⟩
  rw [← ht1, ← ht2, hlen]

/-- the loader never keeps two equal consecutive entries -/
def noAdjEq : List (List Nat) → Prop
  | [] => True
  | [_] => True
  | a :: b :: r => a ≠ b ∧ noAdjEq (b :: r)

theorem C06_push_no_repeat (a : Acc) (t : Nat) (entry : List Nat) (h : noAdjEq a.entriesRev) :
    noAdjEq (a.push t entry).entriesRev := by
  unfold Acc.push
  cases he : a.entriesRev with
  | nil => simp [noAdjEq]
  | cons p r =>
    simp only
    by_cases hp : p = entry
    · rw [if_pos hp, he]; rw [he] at h; exact h
    · rw [if_neg hp]
      simp only [noAdjEq]
      rw [he] at h
      exact ⟨fun e => hp e.symm, h⟩

/-! non-vacuity -/
example : canon [(0, .bits [1, 0]), (0, .bits [1, 0]), (1, .bits [1, 1]), (2, .bits [1, 1]), (3, .bits [1, 0])] =
    [(0, .bits [1, 0]), (1, .bits [1, 1]), (3, .bits [1, 0])] := by decide
example : kindOf [0, 1, 3] = .four ∧ kindOf [0, 1] = .two ∧ kindOf [0, 8] = .nine := by decide

end Wellen.Spec
