import WellenModel.Model.GhwSpec
/-!
# C12 — the same waveform loads identically from VCD, FST and GHW

The formats differ in redundancy (a VCD or GHW file may record a value that did not change, FST merges
delta cycles, GHW records per bit) and in their time unit. The theorems say that the common interface
is insensitive to exactly these differences: the value at every time index is unchanged by the removal
of immediate repetitions (what every loader does, C06), and scaling all timestamps by the timescale
factor commutes with the construction of the time table. The loaders themselves are tied to their
formats by C01 / C09 (VCD), C10 (FST) and C11 (GHW); the cross-format comparison on generated designs
and corpus pairs is the correspondence part of this check.
-/
namespace Wellen.GhwSpec
open Wellen.Spec

/-- the value a change list shows at time index `i`: the last entry at or before `i` (`p` before the first) -/
def scanAt (p : Option Value) : List (Nat × Value) → Nat → Option Value
  | [], _ => p
  | y :: r, i => if y.1 ≤ i then scanAt (some y.2) r i else scanAt p r i

def valueAt (l : List (Nat × Value)) (i : Nat) : Option Value := scanAt none l i

theorem scanAt_all_gt (p : Option Value) (r : List (Nat × Value)) (i : Nat) (h : ∀ y ∈ r, i < y.1) : scanAt p r i = p := by
  induction r generalizing p with
  | nil => rfl
  | cons y r ih =>
    have hy := h y (by simp)
    have : ¬ y.1 ≤ i := by omega
    simp only [scanAt, this, ↓reduceIte]
    exact ih p (fun z hz => h z (by simp [hz]))

theorem go_subset (prev : Value) (r : List (Nat × Value)) : ∀ z ∈ canon.go prev r, z ∈ r := by
  induction r generalizing prev with
  | nil => intro z hz; simp [canon.go] at hz
  | cons y r ih =>
    intro z hz
    simp only [canon.go] at hz
    split at hz
    · exact List.mem_cons_of_mem _ (ih prev z hz)
    · rcases List.mem_cons.mp hz with h | h
      · simp [h]
      · exact List.mem_cons_of_mem _ (ih y.2 z h)

theorem scanAt_go (prev : Value) (r : List (Nat × Value)) (i : Nat) (hs : r.Pairwise (fun a b => a.1 ≤ b.1)) :
    scanAt (some prev) (canon.go prev r) i = scanAt (some prev) r i := by
  induction r generalizing prev with
  | nil => rfl
  | cons y r ih =>
    have hs' := (List.pairwise_cons.mp hs)
    simp only [canon.go]
    by_cases hle : y.1 ≤ i
    · split
      · rename_i heq
        simp only [scanAt, hle, ↓reduceIte, heq]
        exact ih prev hs'.2
      · simp only [scanAt, hle, ↓reduceIte]
        exact ih y.2 hs'.2
    · have hgt : ∀ z ∈ r, i < z.1 := fun z hz => by have := hs'.1 z hz; omega
      split
      · simp only [scanAt, hle, ↓reduceIte]
        rw [scanAt_all_gt _ _ _ hgt]
        exact scanAt_all_gt _ _ _ (fun z hz => hgt z (go_subset prev r z hz))
      · simp only [scanAt, hle, ↓reduceIte]
        rw [scanAt_all_gt _ _ _ hgt]
        exact scanAt_all_gt _ _ _ (fun z hz => hgt z (go_subset y.2 r z hz))

/-- **the value at every time is not affected by the removal of immediate repetitions**: a file that repeats
an unchanged value and a file that does not show the same value at every time index -/
theorem C12_value_at_canon (l : List (Nat × Value)) (i : Nat) (hs : l.Pairwise (fun a b => a.1 ≤ b.1)) :
    valueAt (canon l) i = valueAt l i := by
  cases l with
  | nil => rfl
  | cons x r =>
    have hs' := (List.pairwise_cons.mp hs)
    simp only [valueAt, canon, scanAt]
    by_cases hle : x.1 ≤ i
    · simp only [hle, ↓reduceIte]; exact scanAt_go x.2 r i hs'.2
    · have hgt : ∀ z ∈ r, i < z.1 := fun z hz => by have := hs'.1 z hz; omega
      simp only [hle, ↓reduceIte]
      rw [scanAt_all_gt _ _ _ hgt]
      exact scanAt_all_gt _ _ _ (fun z hz => hgt z (go_subset x.2 r z hz))

theorem scanAt_lastPerStep (l : List (Nat × Value)) : ∀ (p : Option Value) (i : Nat),
    scanAt p (lastPerStep l) i = scanAt p l i := by
  fun_induction lastPerStep l with
  | case1 => intro p i; rfl
  | case2 x => intro p i; rfl
  | case3 x y rest heq ih =>
    intro p i
    rw [ih]
    simp only [scanAt]
    by_cases hx : x.1 ≤ i
    · have hy : y.1 ≤ i := by omega
      simp [hx, hy]
    · simp [hx]
  | case4 x y rest hne ih =>
    intro p i
    simp only [scanAt]
    by_cases hx : x.1 ≤ i
    · simp only [hx, ↓reduceIte]; exact ih _ i
    · simp only [hx, ↓reduceIte]; exact ih _ i

/-- **merging the delta cycles of a time step (what an FST file stores: one value per signal and time, the last one) does not
change the value shown at any time index** -/
theorem C12_value_at_merged (l : List (Nat × Value)) (i : Nat) : valueAt (lastPerStep l) i = valueAt l i :=
  scanAt_lastPerStep l none i

theorem go_scale (k m : Nat) (hk : 0 < k) (l : List Nat) :
    strictPrefixMax.go (m * k) (l.map (· * k)) = (strictPrefixMax.go m l).map (· * k) := by
  induction l generalizing m with
  | nil => rfl
  | cons u r ih =>
    simp only [List.map_cons, strictPrefixMax.go]
    have : (u * k > m * k) ↔ (u > m) := by
      constructor
      · intro h; exact Nat.lt_of_mul_lt_mul_right h
      · intro h; exact Nat.mul_lt_mul_of_pos_right h hk
    by_cases hu : u > m
    · simp [hu, this.mpr hu, ih]
    · have : ¬ (u * k > m * k) := fun h => hu (this.mp h)
      simp [hu, this, ih]

/-- **time tables agree up to the timescale**: expressing every timestamp in a `k` times finer unit scales the time table and
keeps every index (so a VCD in ps and a GHW file in fs show the same table once both are converted to fs) -/
theorem C12_timescale (k : Nat) (hk : 0 < k) (l : List Nat) :
    strictPrefixMax (l.map (· * k)) = (strictPrefixMax l).map (· * k) := by
  cases l with
  | nil => rfl
  | cons t r => simp [strictPrefixMax, go_scale k t hk r]

/-- non-vacuity: a repeated value and a delta cycle -/
example : valueAt [(0, .bits [1]), (1, .bits [1]), (3, .bits [0]), (3, .bits [1])] 2 = some (.bits [1]) ∧
          valueAt (canon [(0, .bits [1]), (1, .bits [1]), (3, .bits [0]), (3, .bits [1])]) 2 = some (.bits [1]) ∧
          valueAt [(0, .bits [1]), (1, .bits [1]), (3, .bits [0]), (3, .bits [1])] 3 = some (.bits [1]) := by decide
example : strictPrefixMax ([0, 5, 5, 3, 7].map (· * 1000)) = [0, 5000, 7000] := by decide

end Wellen.GhwSpec
