import WellenModel.Proofs.Serde
/-!
# C17 — serialised hierarchies and signals survive a round trip

Model: `Model/Serde.lean` — the serde data model of every `serde1`-derived type. The Lean records
have exactly the serialised fields, and every public accessor of `Hierarchy` / `Signal` is a function
of those fields, so `ofS (toS x) = some x` means the deserialised object is the same object and
behaves identically under every accessor.
Partial by nature: the expansion of `#[derive(Serialize, Deserialize)]` and serde_json's text layer
are trusted; they are validated by the differential run (the real JSON of hierarchies and signals
must be reproduced exactly by `toS ∘ ofS`, and the real round trip must preserve every observer).
-/
namespace Wellen.Serde

/-- a Hierarchy round-trips through the serde data model, including negative / zero-width bit ranges
(`VarIndex`), `NonZero` ids, enum tables, source locators and the slices map -/
theorem C17_hier_roundtrip (h : HierM) (hw : h.WF) : HierM.ofS h.toS = some h :=
  HierM.roundtrip h hw

/-- a loaded Signal (2/4/9-state bit vectors, reals, strings) round-trips -/
theorem C17_signal_roundtrip (s : SignalM) (h : 0 < s.idx ∧ s.data.WF) : SignalM.ofS s.toS = some s :=
  SignalM.roundtrip s h

/-- the zero-width replacement value `i32::MIN` and negative bounds survive -/
theorem C17_varindex_roundtrip (v : VarIndexM) (h : v.width ≠ 0) : VarIndexM.ofS v.toS = some v :=
  VarIndexM.roundtrip v h

/-- deserialisation rejects what the types cannot hold: a zero id, a zero width -/
theorem C17_rejects_zero : asNz (.int 0) = none ∧ VarIndexM.ofS (.map [("lsb", .int 3), ("width", .int 0)]) = none := by
  constructor <;> rfl

/-- non-vacuity: a variable with a negative bit range -/
def exVar : VarM where
  name := 2
  varTpe := "Wire"
  direction := "Unknown"
  signalEncoding := SigEncM.bitvec 4
  index := some { lsb := -4, width := 3 }
  signalIdx := 1
  enumType := none
  vhdlTypeName := none
  parent := some 1
  next := some (ItemIdM.var 2)

example : VarM.ofS exVar.toS = some exVar := by
  apply VarM.roundtrip
  refine ⟨by decide, by decide, by decide, ?_, ?_, by decide, ?_, ?_, ?_, ?_⟩
  · show 0 < 4; decide
  · intro i h; simp [exVar] at h; subst h; show (3 : Int) ≠ 0; decide
  · intro n h; simp [exVar] at h
  · intro n h; simp [exVar] at h
  · intro n h; simp [exVar] at h; omega
  · intro i h; simp [exVar] at h; subst h; show 0 < 2; decide

end Wellen.Serde
