import Lean.Data.Json
import WellenModel.Model.Proto
import WellenModel.Model.Offset
import WellenModel.Model.Spec
import WellenModel.Model.VcdBody
import WellenModel.Model.HierDump
import WellenModel.Model.Slice
import WellenModel.Model.Fst
import WellenModel.Model.Load
import WellenModel.Model.Detect
import WellenModel.Model.Py
import WellenModel.Model.Serde
import WellenModel.Model.VcdHeaderDump
import WellenModel.Model.Ghw
import WellenModel.Model.GhwSpec
import WellenModel.Model.FstFile
import WellenModel.Proofs.Mt
/-
`wmdriver`: reads one request per line on stdin, answers `<model reply>\t<spec reply>` per line.
Imports only the import-free `Model` modules (the same definitions the theorems are about).
-/
open Wellen Wellen.Proto

def showOffset : Option Offset.DataOffset → String
  | none => "none"
  | some d => s!"some {d.start} {d.elements} {if d.timeMatch then 1 else 0} {optNatStr d.nextIndex}"

def showFull (a : Array Nat) : Option Offset.DataOffset → String
  | none => "none iter=1"
  | some d =>
    let vals := (List.range d.elements).map fun e =>
      match Offset.valuePos d e with
      | some p => s!"v{p}"
      | none => "assert"
    s!"some t={Offset.getTimeIdxAt a d} vals={",".intercalate vals} iter=1"

/-- finding predicate F18: some group has 65536 or more members -/
def f18 (l : List Nat) (i : Nat) : String :=
  match Offset.specOffset l i with
  | some d => if d.elements ≥ 65536 then "F18" else "-"
  | none => "-"

/-! ### store histories -/
open Wellen.Bits Wellen.Store Wellen.Spec in
def parseTypes (s : String) : Option (List SigType) :=
  if s = "-" then some [] else
  (s.splitOn ",").mapM fun t =>
    if t = "r" then some SigType.real
    else if t = "s" then some SigType.string
    else (t.drop 1).toString.toNat?.map SigType.bitvec

open Wellen.Bits Wellen.Spec in
def parseOp (o : String) : Option Op :=
  let body := (o.drop 1).toString
  let f := body.splitOn ":"
  match o.front, f with
  | 't', [t] => t.toNat?.map Op.time
  | 'a', _ => some Op.split
  | 'v', [id, v] => do some (Op.vcd (← id.toNat?) (← hexBytes? v) none)
  | 'v', [id, v, r] => do
      let rl ← (if r = "-" then some none else (hexBytes? r).map some)
      some (Op.vcd (← id.toNat?) (← hexBytes? v) rl)
  | 'n', [id, st, v] => do some (Op.raw (← id.toNat?) (← States.ofNat? (← st.toNat?)) (← hexBytes? v))
  | 'f', [id, v] => do some (Op.real (← id.toNat?) (← hexBytes? v))
  | _, _ => none

def kindChar : Wellen.Bits.States → String
  | .two => "B" | .four => "F" | .nine => "N"

def charsStr (cs : List Nat) : String := String.ofList (cs.map Char.ofNat)

open Wellen.Bits Wellen.Store in
def showLoaded (tpe : SigType) (l : Loaded) : Option String := do
  let vals ← (l.times.zip l.entries).mapM fun (t, e) =>
    match tpe with
    | .bitvec bits => do
      let (st, cs) ← entryString l.maxStates bits e
      some s!"{t}={kindChar st}{charsStr cs}"
    | .real => some s!"{t}=R{toHex e}"
    | .string => some s!"{t}=S{toHex e}"
  some (if vals.isEmpty then "-" else ",".intercalate vals)

open Wellen.Bits Wellen.Spec in
def showSpecValue : Value → String
  | .bits syms => kindChar (kindOf syms) ++ charsStr (syms.map fun v => Wellen.Gen.lookup9.getD v 63)
  | .real le => "R" ++ toHex le
  | .str b => "S" ++ toHex b

def driverCodec : Wellen.Store.Codec :=
  { wantCompress := fun d => (d.foldl (· + ·) 0) % 3 != 0 }

open Wellen.Bits Wellen.Store Wellen.Spec in
/-- the faithful model: run the encoder(s), finish, load every signal -/
def modelStore (types : List SigType) (ops : List Op) : Option String := do
  let c := driverCodec
  -- one encoder per segment between the splits, appended in order (`Spec.runSegs`: the function the refinement theorem is about)
  let first ← runSegs c types ops
  let (r, tt) := finish c first
  let mut out := "tt=" ++ natListStr tt
  let mut i := 0
  for tp in types do
    let l ← loadSignal r i tp
    out := out ++ "|" ++ (← showLoaded tp l)
    i := i + 1
  some out

open Wellen.Spec in
def specStore (types : List Wellen.Store.SigType) (ops : List Op) : String :=
  match run types ops with
  | none => "-"
  | some (tt, sigs) =>
    "tt=" ++ natListStr tt ++ String.join (sigs.map fun l =>
      "|" ++ (if l.isEmpty then "-" else ",".intercalate (l.map fun (t, v) => s!"{t}={showSpecValue v}")))

def handleStore (types ops : String) : String × String :=
  match parseTypes types, (if ops = "-" then some [] else (ops.splitOn ";").mapM parseOp) with
  | some ts, some os =>
    ((modelStore ts os).getD "panic", specStore ts os)
  | _, _ => ("bad-request", "-")

/-! ### slices (C13) -/
open Wellen.Bits Wellen.Store Wellen.Spec Wellen.Slice in
/-- `slice <width> <ops> <msb> <lsb>`: one parent signal of the given width, then slice_signal -/
def handleSlice (ws ops ms ls : String) : String × String :=
  match ws.toNat?, (if ops = "-" then some [] else (ops.splitOn ";").mapM parseOp), ms.toNat?, ls.toNat? with
  | some w, some os, some msb, some lsb =>
    let types := [SigType.bitvec w]
    let c := driverCodec
    let rbits := msb - lsb + 1
    let m : String := Id.run do
      match runOps c (newEnc types) os with
      | none => return "panic"
      | some e =>
        let (r, _) := finish c e
        match loadSignal r 0 (.bitvec w) with
        | none => return "panic"
        | some l =>
          match sliceSignal l w msb lsb with
          | none => return "panic"
          | some sl => return (showLoaded (.bitvec rbits) sl).getD "panic"
    let sp : String := match Spec.run types os with
      | none => "-"
      | some (_, sigs) =>
        if msb ≥ w ∨ msb < lsb ∨ w < 2 ∨ rbits ≥ w then "-" else
        let l := (sigs.headD []).map fun (t, v) => match v with
          | .bits syms => (t, Value.bits ((syms.drop (w - 1 - msb)).take rbits))
          | v => (t, v)
        let l := canon l
        if l.isEmpty then "-" else ",".intercalate (l.map fun (t, v) => s!"{t}={showSpecValue v}")
    (m, sp)
  | _, _, _, _ => ("bad-request", "-")

/-! ### FST SignalWriter (C10) -/
open Wellen.Bits Wellen.Store Wellen.Spec Wellen.Fst in
/-- `fstw <type> <idx=hex,...>`: callbacks of one signal (b<w>: value characters; r: 8 LE bytes; s: string bytes) -/
def handleFstw (tp chs : String) : String × String :=
  let tpe? := if tp = "r" then some SigType.real else if tp = "s" then some SigType.string
              else (tp.drop 1).toString.toNat?.map SigType.bitvec
  let cs? : Option (List (Nat × List Nat)) := if chs = "-" then some [] else
    (chs.splitOn ",").mapM fun c => match c.splitOn "=" with
      | [i, v] => do some (← i.toNat?, ← hexBytes? v)
      | _ => none
  match tpe?, cs? with
  | some tpe, some cs =>
    let wv := cs.map fun (i, v) => (i, match tpe with | .real => WValue.real v | _ => WValue.chars v)
    let m := match runWriter tpe wv with
      | none => "panic"
      | some l => (showLoaded tpe l).getD "panic"
    -- spec: canon of the callback history
    let vals? : Option (List (Nat × Value)) := cs.mapM fun (i, v) =>
      match tpe with
      | .real => if v.length = 8 then some (i, Value.real v) else none
      | .string => some (i, Value.str v)
      | .bitvec bits => match charsToNums v with
        | some nums => if nums.length = bits then some (i, Value.bits nums) else none
        | none => none
    let mono := (cs.map (·.1)).zip ((cs.map (·.1)).drop 1) |>.all fun (a, b) => a ≤ b
    let sp := match vals? with
      | some vals => if !mono then "-" else
        let l := canon vals
        if l.isEmpty then "-" else ",".intercalate (l.map fun (t, v) => s!"{t}={showSpecValue v}")
      | none => "-"
    (m, sp)
  | _, _ => ("bad-request", "-")

/-! ### load / unload sequences (C07) -/
open Wellen.Load in
/-- `loadseq <n> <path> <ops>`: the model runs the Waveform map with content id := id (the harness checks
contents against the signal loaded alone); the spec runs the abstract set -/
def handleLoadSeq (ns ops : String) : String × String :=
  match ns.toNat? with
  | none => ("bad-request", "-")
  | some n =>
    let src : Source Nat := { raw := id, aliasOf := fun _ => none, slice := fun s _ _ => s }
    let parseIds := fun (s : String) => if s = "-" || s = "" then some [] else natList? s
    let step := fun (acc : Option ((Nat → Option Nat) × (Nat → Bool) × List String × List String)) (o : String) =>
      acc.bind fun (w, st, mo, so) =>
        match o.splitOn ":" with
        | [k, rest] =>
          (parseIds rest).bind fun ids =>
            if ids.any (· ≥ n) then none else
            if k = "d" then
              let r := (src.loadSignals ids).map fun p => toString p.1
              let rs := (sortDedup ids).map toString
              some (w, st, (("d=" ++ (if r.isEmpty then "-" else ",".intercalate r)) :: mo),
                           (("d=" ++ (if rs.isEmpty then "-" else ",".intercalate rs)) :: so))
            else
              let op := if k = "u" then Op.unload ids else Op.load ids
              -- tabulate: `stepW … i` would otherwise re-run the whole step for every lookup
              let wa := ((List.range n).map (stepW src w op)).toArray
              let sa := ((List.range n).map (stepS st op)).toArray
              let w' : Nat → Option Nat := fun i => wa.getD i none
              let st' : Nat → Bool := fun i => sa.getD i false
              let ms := String.ofList ((List.range n).map fun i => match w' i with | some v => if v = i then 'L' else 'X' | none => '-')
              let ss := String.ofList ((List.range n).map fun i => if st' i then 'L' else '-')
              some (w', st', ms :: mo, ss :: so)
        | _ => none
    match (ops.splitOn ";").foldl step (some (fun _ => none, fun _ => false, [], [])) with
    | none => ("bad-request", "-")
    | some (_, _, mo, so) => ("|".intercalate mo.reverse, "|".intercalate so.reverse)

/-! ### format detection (C16) -/
open Wellen.Detect in
def handleDetect (hex : String) : String × String :=
  match hexBytes? hex with
  | none => ("bad-request", "-")
  | some bs =>
    let f := detect bs
    let name := match f with | .vcd => "Vcd" | .fst => "Fst" | .ghw => "Ghw" | .unknown => "Unknown" | .hang => "hang" | .osdep => "osdep"
    -- the property: never hang / panic; Unknown exactly when the data begins like none of the formats
    let fid := if f = .hang then "F10" else if bs.isEmpty then "F9" else "-"
    let spec := if f = .osdep then "-" else if f = .hang || bs.isEmpty then "Unknown" else name
    (name, spec ++ "\t" ++ fid)

/-! ### Python binding (C18) -/
def binToNat (cs : List Char) : Nat := cs.foldl (fun acc c => acc * 2 + (if c = '1' then 1 else 0)) 0

/-- Rust-side value `Kchars` / `R<hex>` / `S<hex>` ↦ what Python shows: i<dec> | s<hex> | f<hex> -/
def pyValue (v : String) : String :=
  match v.toList with
  | 'B' :: cs => "i" ++ toString (binToNat cs)
  | 'F' :: cs => "s" ++ toHex (cs.map Char.toNat)
  | 'N' :: cs => "s" ++ toHex (cs.map Char.toNat)
  | 'R' :: cs => "f" ++ String.ofList cs
  | 'S' :: cs => "s" ++ (if cs = ['-'] then "" else String.ofList cs)
  | _ => "?"

open Wellen.Py in
/-- `pyq <tt> <signal dump>`: all_changes, value_at_idx for 0..n+1, value_at_time around every entry, tt[-1], tt[0] -/
def handlePyq (tts dump : String) : String × String :=
  match natList? tts with
  | none => ("bad-request", "-")
  | some tt =>
    let ents : List (Nat × String) := if dump = "-" then [] else
      (dump.splitOn ",").filterMap fun e => match e.splitOn "=" with
        | [i, v] => i.toNat?.map fun n => (n, v)
        | _ => none
    let idxs := ents.map (·.1)
    let vals := ents.map (·.2)
    let arr := idxs.toArray
    let showV := fun (p : Option Nat) => match p with | some k => pyValue (vals.getD k "?") | none => "n"
    let n := tt.length
    let times := (tt.flatMap fun t => [t - 1, t, t + 1]) ++ [0, (tt.getLast?.getD 0) + 10]
    let times := times.foldl (fun acc t => if acc.contains t then acc else acc ++ [t]) []
    -- TimeTable.__getitem__: the four corner indices, every index from −n−3 to n+2, and far ones
    let ttIdxs : List Int := [-1, 0, (n : Int), -(n : Int)] ++ (List.range (2 * n + 6)).map (fun (k : Nat) => (Int.ofNat k) - (Int.ofNat n) - 3) ++
      [-2 * (n : Int) - 7, -1000000, 1000000]
    let mk := fun (ac : List (Nat × Nat)) (vi : Nat → Option Nat) (vt : Nat → Option Nat) =>
      "AC=" ++ ",".intercalate (ac.map fun (t, p) => s!"{t}:{showV (some p)}") ++
      ";VI=" ++ ",".intercalate ((List.range (n + 2)).map fun i => showV (vi i)) ++
      ";VT=" ++ ",".intercalate (times.map fun t => s!"{t}:{showV (vt t)}") ++
      ";TT=" ++ ",".intercalate (ttIdxs.map fun i => optNatStr (ttGetItem tt i))
    let m := mk (allChanges tt arr) (valueAtIdx arr) (valueAtTime tt arr)
    let specAc := (List.range idxs.length).filterMap fun p => (tt[idxs.getD p 0]?).map fun t => (t, p)
    let sp := mk specAc (latestPos idxs) (specValueAtTime tt idxs)
    (m, sp)

/-! ### serde (C17) -/
open Lean in
partial def jsonToS : Json → Option Wellen.Serde.SVal
  | .null => some .null
  | .bool b => some (.bool b)
  | .num n => if n.exponent = 0 then some (.int n.mantissa) else none
  | .str s => some (.str s)
  | .arr a => (a.toList.mapM jsonToS).map .seq
  | .obj kvs =>
    let pairs : List (String × Json) := kvs.foldl (init := []) fun acc k v => (k, v) :: acc
    (pairs.reverse.mapM fun (p : String × Json) => (jsonToS p.2).map fun sv => (p.1, sv)).map .map

open Lean in
partial def sToJson : Wellen.Serde.SVal → Json
  | .null => .null
  | .bool b => .bool b
  | .int i => .num (JsonNumber.fromInt i)
  | .str s => .str s
  | .seq l => .arr (l.map sToJson).toArray
  | .map l => Json.mkObj (l.map fun (k, v) => (k, sToJson v))

open Lean in
/-- `serdeh <hex json>` / `serdes <hex json>`: does the Lean schema reproduce the real JSON exactly? -/
def handleSerde (kind hex : String) : String × String :=
  match hexBytes? hex with
  | none => ("bad-request", "-")
  | some bs =>
    match String.fromUTF8? (ByteArray.mk (bs.map (·.toUInt8)).toArray) with
    | none => ("not-utf8", "-")
    | some txt =>
      match Json.parse txt with
      | .error e => ("json-parse-error:" ++ e, "-")
      | .ok j =>
        match jsonToS j with
        | none => ("non-integer-number", "-")
        | some sv =>
          let back : Option Json := if kind = "serdeh"
            then (Wellen.Serde.HierM.ofS sv).map fun h => sToJson h.toS
            else (Wellen.Serde.SignalM.ofS sv).map fun s => sToJson s.toS
          match back with
          | none => ("model-rejects", "-")
          | some j2 => (if j2.compress = j.compress then "eq" else "DIFF", "eq")

/-! ### whole VCD bodies -/
open Wellen.Bits Wellen.Store Wellen.Spec Wellen.VcdBody in
def parseVars (s : String) : Option (List (List Nat × SigType)) :=
  if s = "-" then some [] else
  (s.splitOn ",").mapM fun v =>
    match v.splitOn ":" with
    | [id, t] => do
      let idb ← hexBytes? id
      let tp ← (if t = "r" then some SigType.real else if t = "s" then some SigType.string
                else (t.drop 1).toString.toNat?.map SigType.bitvec)
      some (idb, tp)
    | _ => none

def parseRealMap (s : String) : Option (List (List Nat × List Nat)) :=
  if s = "-" then some [] else
  (s.splitOn ",").mapM fun v =>
    match v.splitOn "=" with
    | [a, b] => do some (← hexBytes? a, ← hexBytes? b)
    | _ => none

open Wellen.VcdBody in
def parseMode (s : String) (bodyLen : Nat) : Option Mode :=
  match s.splitOn ":" with
  | ["st"] => some .single
  | ["stc"] => some .singleChecked
  | ["rd"] => some (.reader (bodyLen + 1))
  | ["mt", t, c] => do
    let threads ← t.toNat?
    let mc ← (if c = "prod" then some Wellen.Gen.minChunkSize else c.toNat?)
    some (.multi threads mc)
  | _ => none

open Wellen.Bits Wellen.Store Wellen.Spec Wellen.VcdBody in
def dumpVars (d : Decls) (r : Reader) (tt : List Nat) : Option String := do
  let mut out := "tt=" ++ natListStr tt
  for idx in d.varSig do
    let tp := d.sigTypes.getD idx SigType.string
    let l ← loadSignal r idx tp
    out := out ++ "|" ++ (← showLoaded tp l)
  some out

open Wellen.Bits Wellen.Store Wellen.Spec Wellen.VcdBody in
def modelVcd (mode : Mode) (d : Decls) (rm : RealMap) (body : List Nat) : String :=
  match readValues driverCodec d rm body mode with
  | .panic => "panic"
  | .err => "err"
  | .ok e =>
    let (r, tt) := finish driverCodec e
    (dumpVars d r tt).getD "panic"

open Wellen.Bits Wellen.Store Wellen.Spec Wellen.VcdBody in
/-- property-level meaning of a body: all tokens (also those on the line of `$enddefinitions`),
`$dumpall` ignored like the other dump keywords, implicit time 0 before leading values -/
def specVcd (d : Decls) (vars : List (List Nat × SigType)) (rm : RealMap) (body : List Nat) : String × String :=
  let toksAll := (splitWs body).filter (· ≠ kwDumpall)      -- `$dumpall` brackets ordinary changes of the current time step
  let out := interpT (endsWs body) .first toksAll []
  -- finding: tokens on the first line (F5a); the `$dumpall` class F24 is fixed
  let firstLineToks := splitWs (body.take (body.length - (dropLine body).length))
  let fid := if !firstLineToks.isEmpty then "F5a" else "-"
  match out with
  | .err _ => ("-", "-")
  | .ok evs =>
    -- aliases must agree on the type
    let aliasOk := (d.varSig.zip (vars.map (·.2))).all fun (idx, tp) => d.sigTypes.getD idx SigType.string == tp
    if !aliasOk then ("-", "-") else
    let ops? : Option (List Op) := evs.mapM fun e =>
      match e with
      | .time t => some (Op.time t)
      | .value v id =>
        match resolveId d id with
        | some n => if d.varSig.contains n then some (Op.vcd n v (realOf rm v)) else none
        | none => none
    match ops? with
    | none => ("-", "-")
    | some ops =>
      let ops := match ops with
        | Op.time t :: r => Op.time t :: r
        | [] => []
        | r => Op.time 0 :: r
      match Spec.run d.sigTypes ops with
      | none => ("-", "-")
      | some (tt, sigs) =>
        ("tt=" ++ natListStr tt ++ String.join (d.varSig.map fun idx =>
          let l := sigs.getD idx []
          "|" ++ (if l.isEmpty then "-" else ",".intercalate (l.map fun (t, v) => s!"{t}={showSpecValue v}"))), fid)

/-! ### truncation (C15) -/
abbrev Dump := List Nat × List (List (Nat × String))

def parseDump (d : String) : Option Dump :=
  match d.splitOn "|" with
  | [] => none
  | tt :: sigs =>
    if !tt.startsWith "tt=" then none else do
    let ttl ← natList? (tt.drop 3).toString
    let ss ← sigs.mapM fun p =>
      if p = "-" then some [] else
      (p.splitOn ",").mapM fun e =>
        match e.splitOn "=" with
        | [i, v] => i.toNat?.map fun n => (n, v)
        | _ => none
    some (ttl, ss)

/-- the C15 relation between the truncated and the complete load (same algorithm as harness/src/cut.rs) -/
def cutRelation (p f : Dump) (lb : Bool) : String :=
  let (ptt, psig) := p
  let (ftt, fsig) := f
  if psig.length != fsig.length then "BAD:vars" else
  let n := ptt.length
  let keep := if lb then n else n - 1
  if keep > ftt.length || ptt.take keep != ftt.take keep then "BAD:tt" else
  let last := n - 1
  let bad := (psig.zip fsig).findSome? fun (ps, fs) =>
    let pb := ps.filter fun (i, _) => n > 0 && i < last
    let fb := fs.filter fun (i, _) => n > 0 && i < last
    if pb != fb then some "BAD:changes" else
    if lb then
      let pl := ps.filter fun (i, _) => i == last
      let fl := fs.filter fun (i, _) => i == last
      if pl.length > fl.length || pl != fl.take pl.length then some "BAD:last-step" else none
    else none
  bad.getD "ok"

open Wellen.VcdBody in
def handleCut (opts vars rmap body ks lbs : String) : String × String :=
  match parseVars vars, parseRealMap rmap, hexBytes? body, ks.toNat? with
  | some vs, some rm, some b, some k =>
    match parseMode opts b.length, parseMode opts k with
    | some modeF, some modeP =>
      let d := mkDecls vs
      let full := modelVcd modeF d rm b
      match parseDump full with
      | none => ("full-" ++ full, "-")
      | some fd =>
        let pr := modelVcd modeP d rm (b.take k)
        let fmt := match modeF with
          | .multi t c => !handoverSafe b t c || !handoverSafe (b.take k) t c
          | _ => false
        match parseDump pr with
        | none => (pr, if pr = "err" then "err" else (if fmt then "ok\tFMT" else "ok\tF7"))
        | some pd =>
          let rel := cutRelation pd fd (lbs = "1")
          if lbs = "1" then
            -- line boundary: exactly the waveform the lines present denote (token interpreter + Spec.run of the prefix);
            -- `ok:-` = that specification does not apply (malformed prefix, or a C01 finding class F5a / F24)
            let (sp, fid) := specVcd d vs rm (b.take k)
            let exact := if sp = "-" || fid != "-" then "-" else sp
            ((if rel = "ok" then "ok:" ++ pr else rel), (if fmt then "ok\tFMT" else "ok:" ++ exact))
          else (rel, if fmt then "ok\tFMT" else "ok")
    | _, _ => ("bad-request", "-")
  | _, _, _, _ => ("bad-request", "-")

open Wellen.VcdBody in
/-- C14: the three ways `read_body` can be driven (mmap single, stream, mmap multi-threaded) -/
def handleEntryVcd (vars rmap body : String) : String × String :=
  match parseVars vars, parseRealMap rmap, hexBytes? body with
  | some vs, some rm, some b =>
    let d := mkDecls vs
    let r1 := modelVcd .single d rm b
    let r2 := modelVcd (.reader (b.length + 1)) d rm b
    let r3 := modelVcd (.multi 4 Wellen.Gen.minChunkSize) d rm b
    let cls := fun (r : String) => if r = "err" then "err" else if r = "panic" then "panic" else "ok"
    let m := if r1 = r2 && r2 = r3 then "same:" ++ cls r1
             else if cls r1 != "ok" && cls r1 = cls r2 && cls r2 = cls r3 then "same:" ++ cls r1
             else "DIFF"
    let fid := if !handoverSafe b 4 Wellen.Gen.minChunkSize then "FMT" else "-"
    (m, (if cls r1 = "ok" then "same:ok" else "-") ++ "\t" ++ fid)
  | _, _, _ => ("bad-request", "-")

open Wellen.VcdBody in
/-- C03: oracle = the single-threaded load of the same body -/
def handleVcdMt (opts vars rmap body : String) : String × String :=
  match parseVars vars, parseRealMap rmap, hexBytes? body with
  | some vs, some rm, some b =>
    match parseMode opts b.length with
    | some (.multi t c) =>
      let d := mkDecls vs
      let canon := fun (r : String) => if r = "err" || r = "panic" then "fail" else r
      let st := modelVcd .single d rm b
      let mt := modelVcd (.multi t c) d rm b
      let fid := if !handoverSafe b t c then "FMT" else "-"
      (canon mt, canon st ++ "\t" ++ fid)
    | _ => ("bad-request", "-")
  | _, _, _ => ("bad-request", "-")

deriving instance DecidableEq for Wellen.Spec.Op

/-- evidence for the one assumption of `C03_mt_eq_st_given_handover`: is the body hand-over safe, and do the operations of
its chunks, one after the other, equal the operations of the whole body (`HandoverLexical`, decided for this input) -/
def handleHandoverLex (opts vars rmap body : String) : String × String :=
  open Wellen.VcdBody in
  match parseVars vars, parseRealMap rmap, hexBytes? body with
  | some vs, some rm, some b =>
    match parseMode opts b.length with
    | some (.multi t c) =>
      let d := mkDecls vs
      let safe := handoverSafe b t c
      let lex : Option Bool :=
        match (determineChunks b.length t c).mapM (chunkOps d rm b), tokenSpec b with
        | some segs, .ok evs =>
          match opsOfEvs d rm (implicitZero evs) with
          | some ops => some (decide (segs.flatten = ops))
          | none => none
        | _, _ => none
      let lexTxt := match lex with | some true => "1" | some false => "0" | none => "na"
      (s!"safe={if safe then 1 else 0};lex={lexTxt}", "-")
    | _ => ("bad-request", "-")
  | _, _, _ => ("bad-request", "-")

open Wellen.VcdBody in
def handleVcd (opts vars rmap body : String) : String × String :=
  match parseVars vars, parseRealMap rmap, hexBytes? body with
  | some vs, some rm, some b =>
    match parseMode opts b.length with
    | some mode =>
      let d := mkDecls vs
      let (sp, fid) := specVcd d vs rm b
      let fid := match mode with
        | .multi t c => if fid = "-" && !handoverSafe b t c then "FMT" else fid
        | _ => fid
      (modelVcd mode d rm b, sp ++ "\t" ++ fid)
    | none => ("bad-request", "-")
  | _, _, _ => ("bad-request", "-")

def handle (line : String) : String × String :=
  match splitSp line with
  | ["serdeh", hex] => handleSerde "serdeh" hex
  | ["serdes", hex] => handleSerde "serdes" hex
  | ["serdert", _] => ("same", "same")
  | ["fmtclass", t, hex] =>
    -- the finding class of a body under production chunking with `t` threads (corpus files: no declarations at hand)
    match t.toNat?, hexBytes? hex with
    | some threads, some b => ((if Wellen.VcdBody.handoverSafe b threads Wellen.Gen.minChunkSize then "-" else "FMT"), "-")
    | _, _ => ("bad-request", "-")
  | ["chunks", t, n] =>
    match t.toNat?, n.toNat? with
    | some threads, some len =>
      let cs := Wellen.VcdBody.determineChunks len threads Wellen.Gen.minChunkSize
      let contiguous := (cs.foldl (fun (acc : Bool × Nat) c => (acc.1 && c.1 == acc.2, c.1 + c.2)) (!cs.isEmpty, 0))
      let covers := contiguous.1 && contiguous.2 ≥ len && cs.length ≤ max 1 threads
      let list := ",".intercalate (cs.map fun c => s!"{c.1}:{c.2}")
      -- model: the formula of the code; spec: whatever the chunks are, they must cover the body exactly once
      (s!"covers={covers};{list}", "covers=true")
    | _, _ => ("bad-request", "-")
  | ["fstfile", design, unit, _] =>
    (Wellen.FstFile.model design unit, Wellen.GhwSpec.specFst design unit)
  | ["fstfile", design, unit, _, dups] =>
    (Wellen.FstFile.model design unit dups, Wellen.GhwSpec.specFst design unit dups)
  | ["fstfile", design, unit, _, dups, srcs] =>
    -- the source locators the writer attached to scopes are reported as written (`|src=` suffix, absent when there are none)
    let sfx := if srcs = "-" then "" else "|src=" ++ srcs
    let addS := fun (r : String) => if r = "-" || r = "panic" || r = "bad-request" then r else r ++ sfx
    (addS (Wellen.FstFile.model design unit dups), addS (Wellen.GhwSpec.specFst design unit dups))
  | "pairhex" :: design :: files =>
    let o := Wellen.GhwSpec.specObserve design
    let r := "#".intercalate (files.map fun _ => o)
    (r, if o = "-" then "-" else r)
  | ["ghw", design, hex] =>
    match hexBytes? hex with
    | some bs => (Wellen.Ghw.load bs, Wellen.GhwSpec.spec design)
    | none => ("bad-request", "-")
  | ["vcdhdr", opts, decls, hex] => Wellen.VcdHeader.handle opts decls hex
  | ["pyq", tt, dump] => handlePyq tt dump
  | ["detect", hex] => handleDetect hex
  | ["loadseq", n, _, ops] => handleLoadSeq n ops
  | ["fstw", tp, chs] => handleFstw tp chs
  | ["slice", w, ops, msb, lsb] => handleSlice w ops msb lsb
  | ["hier", ops] => Wellen.Hier.handle ops
  | ["vcd", opts, vars, rmap, body] => handleVcd opts vars rmap body
  | ["vcdmt", opts, vars, rmap, body] => handleVcdMt opts vars rmap body
  | ["handoverlex", opts, vars, rmap, body] => handleHandoverLex opts vars rmap body
  | ["entryvcd", vars, rmap, body] => handleEntryVcd vars rmap body
  | ["entryfile", _] => ("same:ok", "same:ok")
  | ["pairfile", _, _] => ("same", "same")
  | ["vcdcut", opts, vars, rmap, body, k, lb] => handleCut opts vars rmap body k lb
  | ["store", types, ops] => handleStore types ops
  | ["store", types, ops, _] => handleStore types ops
  | ["getoffset_full", idx, needle] =>
    match natList? idx, needle.toNat? with
    | some l, some i =>
      let a := l.toArray
      let m := match Offset.getOffset a i with
        | none => "panic"
        | some r => showFull a r
      (m, showFull a (Offset.specOffset l i) ++ "\t" ++ f18 l i)
    | _, _ => ("bad-request", "-")
  | ["getoffset", idx, needle] =>
    match natList? idx, needle.toNat? with
    | some l, some i =>
      let a := l.toArray
      let m := match Offset.getOffset a i with
        | none => "panic"
        | some r => showOffset r
      (m, showOffset (Offset.specOffset l i) ++ "\t" ++ f18 l i)
    | _, _ => ("bad-request", "-")
  | _ => ("bad-request", "-")

partial def loop (h : IO.FS.Stream) (out : IO.FS.Stream) : IO Unit := do
  let line ← h.getLine
  if line.isEmpty then return ()
  let (m, s) := handle line
  out.putStrLn (m ++ "\t" ++ s)
  loop h out

def main : IO Unit := do
  let out ← IO.getStdout
  loop (← IO.getStdin) out
  out.flush
