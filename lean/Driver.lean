import WellenModel.Model.Proto
import WellenModel.Model.Offset
import WellenModel.Model.Spec
/-
`wmdriver`: reads one request per line on stdin, answers `<model reply>\t<spec reply>` per line.
Imports only the import-free `Model` modules (the same definitions the theorems are about).
-/
open Wellen Wellen.Proto

def showOffset : Option Offset.DataOffset → String
  | none => "none"
  | some d => s!"some {d.start} {d.elements} {if d.timeMatch then 1 else 0} {optNatStr d.nextIndex}"

def showFull (a : Array Nat) : Option Offset.DataOffset → String
  | none => "none iter=1"
  | some d =>
    let vals := (List.range d.elements).map fun e =>
      match Offset.valuePos d e with
      | some p => s!"v{p}"
      | none => "assert"
    s!"some t={Offset.getTimeIdxAt a d} vals={",".intercalate vals} iter=1"

/-- finding predicate F18: some group has 65536 or more members -/
def f18 (l : List Nat) (i : Nat) : String :=
  match Offset.specOffset l i with
  | some d => if d.elements ≥ 65536 then "F18" else "-"
  | none => "-"

/-! ### store histories -/
open Wellen.Bits Wellen.Store Wellen.Spec in
def parseTypes (s : String) : Option (List SigType) :=
  if s = "-" then some [] else
  (s.splitOn ",").mapM fun t =>
    if t = "r" then some SigType.real
    else if t = "s" then some SigType.string
    else (t.drop 1).toString.toNat?.map SigType.bitvec

open Wellen.Bits Wellen.Spec in
def parseOp (o : String) : Option Op :=
  let body := (o.drop 1).toString
  let f := body.splitOn ":"
  match o.front, f with
  | 't', [t] => t.toNat?.map Op.time
  | 'a', _ => some Op.split
  | 'v', [id, v] => do some (Op.vcd (← id.toNat?) (← hexBytes? v) none)
  | 'v', [id, v, r] => do
      let rl ← (if r = "-" then some none else (hexBytes? r).map some)
      some (Op.vcd (← id.toNat?) (← hexBytes? v) rl)
  | 'n', [id, st, v] => do some (Op.raw (← id.toNat?) (← States.ofNat? (← st.toNat?)) (← hexBytes? v))
  | 'f', [id, v] => do some (Op.real (← id.toNat?) (← hexBytes? v))
  | _, _ => none

def kindChar : Wellen.Bits.States → String
  | .two => "B" | .four => "F" | .nine => "N"

def charsStr (cs : List Nat) : String := String.ofList (cs.map Char.ofNat)

open Wellen.Bits Wellen.Store in
def showLoaded (tpe : SigType) (l : Loaded) : Option String := do
  let vals ← (l.times.zip l.entries).mapM fun (t, e) =>
    match tpe with
    | .bitvec bits => do
      let (st, cs) ← entryString l.maxStates bits e
      some s!"{t}={kindChar st}{charsStr cs}"
    | .real => some s!"{t}=R{toHex e}"
    | .string => some s!"{t}=S{toHex e}"
  some (if vals.isEmpty then "-" else ",".intercalate vals)

open Wellen.Bits Wellen.Spec in
def showSpecValue : Value → String
  | .bits syms => kindChar (kindOf syms) ++ charsStr (syms.map fun v => Wellen.Gen.lookup9.getD v 63)
  | .real le => "R" ++ toHex le
  | .str b => "S" ++ toHex b

def driverCodec : Wellen.Store.Codec :=
  { wantCompress := fun d => (d.foldl (· + ·) 0) % 3 != 0 }

open Wellen.Bits Wellen.Store Wellen.Spec in
/-- the faithful model: run the encoder(s), finish, load every signal -/
def modelStore (types : List SigType) (ops : List Op) : Option String := do
  let c := driverCodec
  let mut done : List Enc := []
  let mut e := newEnc types
  for op in ops do
    match op with
    | .split => done := e :: done; e := newEnc types
    | op => e ← stepOp c e op
  let encs := (e :: done).reverse
  let mut first := encs.headD e
  for other in encs.drop 1 do
    first ← append c first other
  let (r, tt) := finish c first
  let mut out := "tt=" ++ natListStr tt
  let mut i := 0
  for tp in types do
    let l ← loadSignal r i tp
    out := out ++ "|" ++ (← showLoaded tp l)
    i := i + 1
  some out

open Wellen.Spec in
def specStore (types : List Wellen.Store.SigType) (ops : List Op) : String :=
  match run types ops with
  | none => "-"
  | some (tt, sigs) =>
    "tt=" ++ natListStr tt ++ String.join (sigs.map fun l =>
      "|" ++ (if l.isEmpty then "-" else ",".intercalate (l.map fun (t, v) => s!"{t}={showSpecValue v}")))

def handleStore (types ops : String) : String × String :=
  match parseTypes types, (if ops = "-" then some [] else (ops.splitOn ";").mapM parseOp) with
  | some ts, some os =>
    ((modelStore ts os).getD "panic", specStore ts os)
  | _, _ => ("bad-request", "-")

def handle (line : String) : String × String :=
  match splitSp line with
  | ["store", types, ops] => handleStore types ops
  | ["store", types, ops, _] => handleStore types ops
  | ["getoffset_full", idx, needle] =>
    match natList? idx, needle.toNat? with
    | some l, some i =>
      let a := l.toArray
      let m := match Offset.getOffset a i with
        | none => "panic"
        | some r => showFull a r
      (m, showFull a (Offset.specOffset l i) ++ "\t" ++ f18 l i)
    | _, _ => ("bad-request", "-")
  | ["getoffset", idx, needle] =>
    match natList? idx, needle.toNat? with
    | some l, some i =>
      let a := l.toArray
      let m := match Offset.getOffset a i with
        | none => "panic"
        | some r => showOffset r
      (m, showOffset (Offset.specOffset l i) ++ "\t" ++ f18 l i)
    | _, _ => ("bad-request", "-")
  | _ => ("bad-request", "-")

partial def loop (h : IO.FS.Stream) (out : IO.FS.Stream) : IO Unit := do
  let line ← h.getLine
  if line.isEmpty then return ()
  let (m, s) := handle line
  out.putStrLn (m ++ "\t" ++ s)
  loop h out

def main : IO Unit := do
  let out ← IO.getStdout
  loop (← IO.getStdin) out
  out.flush
