import WellenModel.Model.Proto
import WellenModel.Model.Offset
/-
`wmdriver`: reads one request per line on stdin, answers `<model reply>\t<spec reply>` per line.
Imports only the import-free `Model` modules (the same definitions the theorems are about).
-/
open Wellen Wellen.Proto

def showOffset : Option Offset.DataOffset → String
  | none => "none"
  | some d => s!"some {d.start} {d.elements} {if d.timeMatch then 1 else 0} {optNatStr d.nextIndex}"

def showFull (a : Array Nat) : Option Offset.DataOffset → String
  | none => "none iter=1"
  | some d =>
    let vals := (List.range d.elements).map fun e =>
      match Offset.valuePos d e with
      | some p => s!"v{p}"
      | none => "assert"
    s!"some t={Offset.getTimeIdxAt a d} vals={",".intercalate vals} iter=1"

/-- finding predicate F18: some group has 65536 or more members -/
def f18 (l : List Nat) (i : Nat) : String :=
  match Offset.specOffset l i with
  | some d => if d.elements ≥ 65536 then "F18" else "-"
  | none => "-"

def handle (line : String) : String × String :=
  match splitSp line with
  | ["getoffset_full", idx, needle] =>
    match natList? idx, needle.toNat? with
    | some l, some i =>
      let a := l.toArray
      let m := match Offset.getOffset a i with
        | none => "panic"
        | some r => showFull a r
      (m, showFull a (Offset.specOffset l i) ++ "\t" ++ f18 l i)
    | _, _ => ("bad-request", "-")
  | ["getoffset", idx, needle] =>
    match natList? idx, needle.toNat? with
    | some l, some i =>
      let a := l.toArray
      let m := match Offset.getOffset a i with
        | none => "panic"
        | some r => showOffset r
      (m, showOffset (Offset.specOffset l i) ++ "\t" ++ f18 l i)
    | _, _ => ("bad-request", "-")
  | _ => ("bad-request", "-")

partial def loop (h : IO.FS.Stream) (out : IO.FS.Stream) : IO Unit := do
  let line ← h.getLine
  if line.isEmpty then return ()
  let (m, s) := handle line
  out.putStrLn (m ++ "\t" ++ s)
  loop h out

def main : IO Unit := do
  let out ← IO.getStdout
  loop (← IO.getStdin) out
  out.flush
